#!/bin/bash
# Run once after a fresh restore, offline: builds the simulator against /repo (hooks on).
set -e
cd /verif/bssim
export CARGO_NET_OFFLINE=true
cargo build 2>&1 | tail -3
mkdir -p /verif/cache /verif/scratch /verif/evidence /verif/replays

#!/bin/bash
# collect_seeded.sh <id>: copy an agent's deliverables from /tmp/wt/m_<id>.out into /verif/seeded/<id>/
id=$1; O=/tmp/wt/m_$id.out; D=/verif/seeded/$id
mkdir -p $D
cp $O/patch.diff $D/ 2>/dev/null
cp $O/NOTES.agent.md $D/ 2>/dev/null
cp $O/confirm.txt $D/ 2>/dev/null
rm -rf $D/demo; mkdir -p $D/demo
# demo sources only (no build output)
( cd $O/demo && find . -type f -size -200k ! -path '*/target/*' ! -name '*.o' ! -name '*.rlib' | while read f; do
    if file "$f" | grep -q ELF; then continue; fi
    mkdir -p $D/demo/$(dirname $f); cp "$f" $D/demo/$f; done )
ls -R $D | head -20

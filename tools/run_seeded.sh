#!/bin/bash
# run_seeded.sh <id> <prop> [prop...]: apply /verif/seeded/<id>/patch.diff to /repo, run the quick checks, undo.
id=$1; shift
cd /repo && git status --short | grep -q . && { echo "/repo not clean"; exit 2; }
git -C /repo apply /verif/seeded/$id/patch.diff || exit 2
for p in "$@"; do
  ( cd /verif && ./check.sh $p ${TIER:-quick} > /verif/seeded/$id/result_$p.txt 2>&1; echo "exit=$?" >> /verif/seeded/$id/result_$p.txt )
  echo "--- $id vs $p:"; grep -E "^check|VIOLATION|invariant=|exit=|HARNESS" /verif/seeded/$id/result_$p.txt | cut -c1-400
done
git -C /repo checkout -- .

#!/bin/bash
# check_baseline.sh <worktree>: the pinned suite (guard off) in a scratch worktree, compared with BASELINE.json stable_pass
WT=$1
cd $WT || exit 2
export CARGO_NET_OFFLINE=true
unset RUSTFLAGS
cargo nextest run --workspace --no-fail-fast --tool-config-file pb:/w/lib/nextest.toml --profile pb --test-threads 8 --offline >$WT.baseline.log 2>&1
J=$WT/target/nextest/pb/junit.xml
[ -f "$J" ] || { echo "no junit output"; tail -20 $WT.baseline.log; exit 2; }
python3 - "$J" <<'PY'
import sys, json, xml.etree.ElementTree as ET
base = set(json.load(open('/root/.vp/BASELINE.json'))['stable_pass'])
t = ET.parse(sys.argv[1])
passed = set()
for tc in t.iter('testcase'):
    ok = not any(c.tag in ('failure', 'error') for c in tc)
    if ok:
        passed.add(tc.get('classname', '') + '::' + tc.get('name', ''))
missing = sorted(b for b in base if not any(p.endswith(b.split('bugstalker::',1)[-1]) for p in passed))
print(f"baseline stable_pass={len(base)} passed_now={len(passed)} missing={len(missing)}")
for m in missing[:20]:
    print("  MISSING", m)
sys.exit(1 if missing else 0)
PY

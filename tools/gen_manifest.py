#!/usr/bin/env python3
"""Regenerates /verif/MANIFEST.json from the tables below (keeps it valid at all times)."""
import json, subprocess
NOTE = "Trusted base: Linux ptrace/procfs, the reference single-step tracer and its call/return recognition, llvm-dwarfdump, the installed rustc toolchains. Which addresses a line/function denotes is taken from the debugger (C04 not re-judged)."
claimed = {
 "C01": ("exploration","Layer A refinement: the real debugger's stops under generated add/remove/continue histories are compared, stop by stop, with RefExec.cont(B) over an independently single-stepped reference execution; seeded search over programs (3 toolchains, opt 0/1) and histories. Sampling, not proof.","§4 C01","deterministic simulation: seeded histories vs reference-execution model (refinement)", NOTE),
 "C02": ("exploration","After every operation of a generated command history (break/remove/continue/step*/finish/stepi/watch/call/restart/detach, valid or failing) the text of every file-backed executable mapping is compared with the file (only armed user breakpoints and the two documented internal ones may differ), every text POKE in the syscall history is classified as arm/restore, the text is re-read at the instant of PTRACE_DETACH, and the final output/exit status is compared with the native run.","§4 C02","deterministic simulation: text ledger + syscall-history invariants + native-run comparison", NOTE),
 "C03": ("exploration","stepi/step/next/finish from random stop positions are judged by the admissible-stop inequalities of the property over the reference trace (activation ids incl. tail calls, shadow stack) and an llvm-dwarfdump line table (inlined ranges excluded). Confirmed defects of the unchanged tree are listed as known findings by mechanism signature.","§4 C03","deterministic simulation: refinement of step commands against RefExec", NOTE),
 "C05": ("exploration","At every stop inside traced code the backtrace, CFA and return address are compared with the shadow stack kept by the reference tracer (recursion, generic and closure frames).","§4 C05","deterministic simulation: backtrace vs shadow stack at simulated stops", NOTE),
 "C11": ("exploration","Histories ending in drop / detach / restart / exit at every kind of stop: the namespace's process table after teardown, text and DR7 at the instant of PTRACE_DETACH, completion of the released process with the native exit status, breakpoint numbers/places across restart and the post-restart stop vs the reference execution, reported exit codes.","§4 C11","deterministic simulation: teardown histories with process-table / detach-instant oracles", NOTE),
 "C14": ("exploration","Histories of watchpoint add/remove (address x size x condition, aligned and not, duplicates, fifth) interleaved with execution and restart; after every operation the harness reads DR0-3/DR7 of the tracee with PTRACE_PEEKUSER and compares with a 4-slot model and with watchpoint_list(); refusals must be side-effect free. Hit delivery is not exercisable on this host (DESIGN §1.3).","§4 C14","deterministic simulation: debug-register image vs slot model", NOTE),
 "C16": ("exploration","Injected calls of 0/2/3/6-parameter functions with boundary literals, and uncallable requests, at random stops (incl. inside leaf functions and inside the callee's own code): all registers, /proc/maps, text, position and the callee's own argument log are compared before/after; execution afterwards still follows the reference.","§4 C16","deterministic simulation: before/after state comparison around injected calls", NOTE),
 "C12": ("exploration","The real DebugSession and its two output-forwarder threads run under a seeded scheduler that parks and releases them at the H1 schedule points; a simulated adaptive client sends valid, out-of-order and argument-mutated requests over an in-memory transport; the recorded wire log is checked for one response per request, seq=1,2,3.. in wire order, event uniqueness/causality and silence after `terminated`. One confirmed defect (output after terminated) is a known finding.","§4 C12 / §2.7","deterministic simulation: seeded thread interleavings at hook points + wire-history invariants", "Trusted base: the H1 points lie outside every critical section; the in-memory transport admits exactly the wire orders of the real one; debuggee output is written in whole lines."),
}
na = {
 "C04":"pure function of (binary, address|line|name): no schedule, fault, clock or history for a simulator to control (DESIGN §5)",
 "C06":"pure function of (type DIEs, fetched bytes); quantifier is over values/types/toolchains only (DESIGN §5)",
 "C07":"pure functions of (expression text, value tree) (DESIGN §5)",
 "C17":"pure function of (index contents, template); bounded-exhaustive index checking is model checking, not simulation (DESIGN §5)",
 "C19":"pure function of (DWARF, pc, selected frame) at a stop; no dependence on how the stop was reached (DESIGN §5)",
 "C20":"technique would apply (task schedules) but no tokio crate exists in the offline cargo cache, so no debuggee can be built (DESIGN §5)",
}
pending = {p: "check not built yet in this session (design in DESIGN.md §4); will be claimed when its check lands" for p in ["C08","C09","C10","C13","C15","C18"]}
try:
    exec(open('/verif/tools/manifest_extra.py').read())
except FileNotFoundError:
    pass
checks=[]
for pid,(cat,text,ref,tech,note) in sorted(claimed.items()):
    checks.append({"property_id": pid, "quick_cmd": f"./check.sh {pid} quick", "thorough_cmd": f"./check.sh {pid} thorough",
      "evidence_file": f"/verif/evidence/{pid}.json", "replay_cmd_template": "./check.sh replay {path}", "engine": "bssim",
      "level_claimed": {"category": cat, "text": text, "design_ref": ref}, "level_note": note, "technique": tech})
hooks = subprocess.run("git -C /repo log --format=%h --grep='^verif hook'", shell=True, capture_output=True, text=True).stdout.split()
m={"version":1, "setup_cmd":"./setup.sh",
 "hooks":{"guard":"--cfg bs_verif","enable":"RUSTFLAGS=--cfg bs_verif via /verif/bssim/.cargo/config.toml (bssim depends on bugstalker by path=/repo)","baseline_off_cmd":"./baseline_off.sh","source_commits":hooks,"add_only":True},
 "engines":[{"name":"bssim","path":"/verif/bssim","serves_properties":sorted(claimed.keys()),"kind_free_text":"deterministic simulator: PID-namespace workers linking the real bugstalker crate behind an interposed libc seam (ptrace/waitpid/getrandom), seeded choice tape, reference-execution model, replay + tape minimisation"}],
 "checks":checks,
 "not_applicable":[{"property_id":k,"reason":v} for k,v in sorted({**na, **{k:v for k,v in pending.items() if k not in claimed}}.items())],
 "notes":"Exit codes: 0 held, 1 VIOLATION (after a minimised replay reproduced in a fresh worker), 2 harness error. Known findings: /verif/known_findings.json."}
json.dump(m,open('/verif/MANIFEST.json','w'),indent=1)
print("claimed", sorted(claimed), "n/a", [x['property_id'] for x in m['not_applicable']])

#!/bin/bash
# confirm_seeded.sh <id>: in the agent's scratch worktree /tmp/wt/m_<id>: demo fails with the patch,
# passes without it, and the pinned baseline suite passes with it.  Writes /tmp/wt/m_<id>.out/confirm.txt
id=$1; WT=/tmp/wt/m_$id; OUT=/tmp/wt/m_$id.out; P=$OUT/patch.diff
cd $WT || exit 2
git checkout -q -- src 2>/dev/null
git apply $P || { echo "patch does not apply" > $OUT/confirm.txt; exit 2; }
{
echo "== build with patch"; cargo build --offline 2>&1 | tail -1
echo "== demo WITH patch"; bash $OUT/demo/run.sh $WT > $OUT/confirm_with.log 2>&1; echo "exit=$?"
git apply -R $P
echo "== demo WITHOUT patch"; bash $OUT/demo/run.sh $WT > $OUT/confirm_without.log 2>&1; echo "exit=$?"
git apply $P
echo "== baseline WITH patch"; /verif/tools/check_baseline.sh $WT 2>&1 | tail -4
pkill -9 -f "$WT/target/debug/b[s] --dap" 2>/dev/null
} > $OUT/confirm.txt 2>&1
cat $OUT/confirm.txt

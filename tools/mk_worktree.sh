#!/bin/bash
# mk_worktree.sh <name>: scratch git worktree of /repo HEAD under /tmp/wt/<name> (with the prebuilt example binaries)
set -e
n=$1
git -C /repo worktree add --detach /tmp/wt/$n HEAD >/dev/null 2>&1
mkdir -p /tmp/wt/$n/examples/target
cp -r /repo/examples/target/debug /tmp/wt/$n/examples/target/debug
mkdir -p /tmp/wt/$n.out
echo /tmp/wt/$n

fn main() {
    // libthread_db resolves ps_* callbacks from the executable: same link arg as /repo/build.rs
    println!("cargo:rustc-link-arg=-Wl,--export-dynamic");
}

//! Compile generated programs with the installed toolchains; binaries are cached by content
//! hash under /verif/cache.

use crate::progen::ProgramSpec;
use crate::rng::SplitMix;
use std::path::{Path, PathBuf};

pub fn cache_dir() -> PathBuf {
    let d = PathBuf::from(std::env::var("BSSIM_CACHE").unwrap_or_else(|_| "/verif/cache".into()));
    let _ = std::fs::create_dir_all(&d);
    d
}

pub fn hash_str(s: &str) -> u64 {
    let mut h = 0xcbf2_9ce4_8422_2325u64;
    for b in s.bytes() {
        h ^= b as u64;
        h = h.wrapping_mul(0x1000_0000_01b3);
    }
    SplitMix(h).next()
}

#[derive(Clone, Debug)]
pub struct Built {
    pub bin: PathBuf,
    pub src_file: String, // file name as it appears in DWARF (for file:line templates)
    pub hash: String,
}

pub fn program_hash(p: &ProgramSpec) -> String {
    let key = format!("{}|{}|{}|{}|{}|{}", p.family, p.toolchain, p.opt_level, p.pie, p.extra_args.join(" "), p.src);
    format!("{:016x}", hash_str(&key))
}

pub fn build(p: &ProgramSpec) -> Result<Built, String> {
    let h = program_hash(p);
    let dir = cache_dir();
    let name = format!("p{h}");
    let src = dir.join(format!("{name}.rs"));
    let bin = dir.join(&name);
    let built = Built { bin: bin.clone(), src_file: format!("{name}.rs"), hash: h.clone() };
    if bin.exists() {
        return Ok(built);
    }
    std::fs::write(&src, &p.src).map_err(|e| e.to_string())?;
    let tmp_out = dir.join(format!("{name}.tmp{}", std::process::id()));
    let mut cmd = std::process::Command::new("rustc");
    cmd.arg(format!("+{}", p.toolchain))
        .args(["--edition", "2024", "-g", "-C", "panic=abort", "-C", "debuginfo=2"])
        .arg("-C")
        .arg(format!("opt-level={}", p.opt_level))
        .arg("--crate-name")
        .arg(&name)
        .arg("-o")
        .arg(&tmp_out)
        .args(&p.extra_args);
    if !p.pie {
        cmd.args(["-C", "relocation-model=static", "-C", "link-arg=-no-pie"]);
    }
    cmd.arg(&src).current_dir(&dir);
    let out = cmd.output().map_err(|e| format!("rustc spawn: {e}"))?;
    if !out.status.success() {
        let _ = std::fs::remove_file(&tmp_out);
        return Err(format!("rustc failed for {}:\n{}", src.display(), String::from_utf8_lossy(&out.stderr)));
    }
    std::fs::rename(&tmp_out, &bin).map_err(|e| e.to_string())?;
    Ok(built)
}

pub fn exists(path: &Path) -> bool {
    path.exists()
}

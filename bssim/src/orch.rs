//! Orchestrator: builds the corpus, runs workers in parallel (one PID namespace each),
//! checks determinism, classifies violations against the known-findings file, minimises and
//! verifies replays, writes evidence.

use crate::compile;
use crate::progen::ProgramSpec;
use crate::worker::{Violation, WorkerResult, WorkerSpec};
use serde_json::{Value, json};
use std::collections::{BTreeMap, BTreeSet, VecDeque};
use std::path::PathBuf;
use std::sync::{Arc, Mutex};
use std::time::{Duration, Instant};

pub const VERIF: &str = "/verif";

pub fn scratch_dir(prop: &str) -> PathBuf {
    let d = PathBuf::from(format!("{VERIF}/scratch/{prop}"));
    let _ = std::fs::create_dir_all(&d);
    d
}

pub fn parallel<T: Send + 'static, R: Send + 'static>(jobs: Vec<T>, nthreads: usize, f: impl Fn(T) -> R + Send + Sync + 'static) -> Vec<R> {
    let n = jobs.len();
    let q: Arc<Mutex<VecDeque<(usize, T)>>> = Arc::new(Mutex::new(jobs.into_iter().enumerate().collect()));
    let out: Arc<Mutex<Vec<Option<R>>>> = Arc::new(Mutex::new((0..n).map(|_| None).collect()));
    let f = Arc::new(f);
    let mut hs = vec![];
    for _ in 0..nthreads.max(1).min(n.max(1)) {
        let (q, out, f) = (q.clone(), out.clone(), f.clone());
        hs.push(std::thread::spawn(move || {
            loop {
                let job = q.lock().unwrap().pop_front();
                let Some((i, j)) = job else { break };
                let r = f(j);
                out.lock().unwrap()[i] = Some(r);
            }
        }));
    }
    for h in hs {
        let _ = h.join();
    }
    Arc::try_unwrap(out).ok().unwrap().into_inner().unwrap().into_iter().map(|x| x.unwrap()).collect()
}

pub fn nworkers() -> usize {
    std::env::var("BSSIM_WORKERS").ok().and_then(|s| s.parse().ok()).unwrap_or(10)
}

/// Run one worker process (fresh namespace) with a wall-clock backstop.
pub fn run_worker(spec: &WorkerSpec, timeout: Duration) -> WorkerResult {
    let spec_path = format!("{}.spec", spec.out);
    let _ = std::fs::remove_file(&spec.out);
    std::fs::write(&spec_path, serde_json::to_string(spec).unwrap()).unwrap();
    let exe = std::env::current_exe().unwrap();
    let mut child = match std::process::Command::new(exe).arg("worker").arg(&spec_path).stdout(std::process::Stdio::null()).stderr(std::process::Stdio::piped()).spawn() {
        Ok(c) => c,
        Err(e) => return WorkerResult { verdict: "harness_error".into(), detail: format!("spawn: {e}"), ..Default::default() },
    };
    let t0 = Instant::now();
    let status = loop {
        match child.try_wait() {
            Ok(Some(st)) => break Some(st),
            Ok(None) => {
                if t0.elapsed() > timeout {
                    let _ = child.kill(); // init has PDEATHSIG=SIGKILL: the namespace dies with it
                    let _ = child.wait();
                    break None;
                }
                std::thread::sleep(Duration::from_millis(3));
            }
            Err(_) => break None,
        }
    };
    let mut stderr = String::new();
    if let Some(mut e) = child.stderr.take() {
        use std::io::Read;
        let _ = e.read_to_string(&mut stderr);
    }
    let res = std::fs::read_to_string(&spec.out).ok().and_then(|s| serde_json::from_str::<WorkerResult>(&s).ok());
    let _ = std::fs::remove_file(&spec.out);
    match (status, res) {
        (None, r) => {
            let mut r = r.unwrap_or_default();
            r.verdict = "timeout".into();
            r.detail = format!("worker exceeded {timeout:?}");
            r
        }
        (Some(_), Some(r)) => r,
        (Some(st), None) => WorkerResult { verdict: "crash".into(), detail: format!("worker died without result: {st:?}; stderr tail: {}", stderr.chars().rev().take(400).collect::<String>().chars().rev().collect::<String>()), ..Default::default() },
    }
}

// ------------------------------------------------------------------ known findings

#[derive(Clone, Debug)]
pub struct KnownFinding {
    pub id: String,
    pub property: String,
    pub invariant: String,
    pub what: String,
}

pub fn load_known() -> Vec<KnownFinding> {
    let Ok(s) = std::fs::read_to_string(format!("{VERIF}/known_findings.json")) else { return vec![] };
    let Ok(v) = serde_json::from_str::<Value>(&s) else { return vec![] };
    v["findings"]
        .as_array()
        .map(|a| {
            a.iter()
                .filter(|f| f["status"] == "known")
                .map(|f| KnownFinding { id: f["id"].as_str().unwrap_or("").into(), property: f["property"].as_str().unwrap_or("").into(), invariant: f["invariant"].as_str().unwrap_or("").into(), what: f["what"].as_str().unwrap_or("").into() })
                .collect()
        })
        .unwrap_or_default()
}

// ------------------------------------------------------------------ check driver

pub struct CheckCfg {
    pub prop: String,
    pub tier: String,
    pub seed: u64,
    pub mode: String,
    pub programs: usize,
    pub histories: usize,
    pub det_pairs: usize,
    pub timeout: Duration,
    pub params: BTreeMap<String, Value>,
    pub level: String,
    pub rule: String,
    pub assumptions: Vec<String>,
    pub real_stub: Value,
    /// reach probes that must be non-zero, else the run is vacuous (exit 2)
    pub required_probes: Vec<String>,
    pub budget: Duration,
}

pub struct Corpus {
    pub progs: Vec<(ProgramSpec, compile::Built)>,
    pub rejected: usize,
}

pub fn build_corpus(specs: Vec<ProgramSpec>, need_trace: bool) -> Corpus {
    let res = parallel(specs, nworkers(), move |p| {
        let b = match compile::build(&p) {
            Ok(b) => b,
            Err(e) => return Err(format!("build: {e}")),
        };
        if need_trace {
            match crate::reftrace::trace_cached(&b.bin) {
                Ok(t) => {
                    if !t.unique {
                        return Err("positions not unique".into());
                    }
                    if t.exit_code < 0 {
                        return Err("reference run did not exit normally".into());
                    }
                }
                Err(e) => return Err(format!("trace: {e}")),
            }
            if let Err(e) = crate::linetab::load(&b.bin) {
                return Err(e);
            }
        }
        Ok((p, b))
    });
    let mut progs = vec![];
    let mut rejected = 0;
    for r in res {
        match r {
            Ok(x) => progs.push(x),
            Err(e) => {
                rejected += 1;
                if std::env::var("BSSIM_VERBOSE").is_ok() {
                    eprintln!("corpus reject: {e}");
                }
            }
        }
    }
    Corpus { progs, rejected }
}

pub struct RunRecord {
    pub spec: WorkerSpec,
    pub res: WorkerResult,
    pub wall_ms: u64,
}

fn own_violations<'a>(prop: &str, r: &'a WorkerResult) -> Vec<&'a Violation> {
    r.violations.iter().filter(|v| v.property == prop).collect()
}

/// Replay `tape` and report whether a violation (property, invariant) still occurs.
fn reproduces(base: &WorkerSpec, tape: &[u32], prop: &str, invariant: &str, timeout: Duration, tag: &str) -> Option<WorkerResult> {
    let mut s = base.clone();
    // an empty tape means "the worker died before it could report its tape": re-run from the seed
    s.tape = if tape.is_empty() { None } else { Some(tape.to_vec()) };
    s.out = format!("{}.min{}", base.out, tag);
    // the wall-clock backstop is not an oracle (the deterministic ptrace-call budgets are): a
    // run it cut is confirmed alone, with three times the allowance, so that a slow run on a
    // loaded machine completes while a real hang still does not come back
    let timeout = if invariant == "worker_timeout" { timeout * 3 } else { timeout };
    let r = run_worker(&s, timeout);
    let hit = match invariant {
        "worker_crash" => r.verdict == "crash" || r.verdict == "panic",
        "worker_timeout" => r.verdict == "timeout",
        _ => r.violations.iter().any(|v| v.property == prop && v.invariant == invariant),
    };
    if hit { Some(r) } else { None }
}

/// Shrink the choice tape while the same violation class persists (ddmin-style: drop chunks,
/// then zero entries), with a wall-clock budget.
pub fn minimise(base: &WorkerSpec, tape: Vec<u32>, prop: &str, invariant: &str, timeout: Duration, budget: Duration) -> (Vec<u32>, usize) {
    let t0 = Instant::now();
    let mut best = tape;
    let mut tries = 0usize;
    let mut chunk = (best.len() / 2).max(1);
    while chunk >= 1 && t0.elapsed() < budget {
        let mut improved = false;
        // candidates: remove [i, i+chunk) for several i in parallel
        let mut starts: Vec<usize> = (0..best.len()).step_by(chunk).collect();
        starts.reverse();
        let cands: Vec<(usize, Vec<u32>)> = starts
            .iter()
            .map(|&i| {
                let mut c = best.clone();
                let end = (i + chunk).min(c.len());
                c.drain(i..end);
                (i, c)
            })
            .collect();
        let base2 = base.clone();
        let (p, inv) = (prop.to_string(), invariant.to_string());
        let results = parallel(cands, nworkers(), move |(i, c)| {
            let ok = reproduces(&base2, &c, &p, &inv, timeout, &format!("_{i}")).is_some();
            (c, ok)
        });
        tries += results.len();
        // take the shortest successful candidate
        if let Some((c, _)) = results.into_iter().filter(|(_, ok)| *ok).min_by_key(|(c, _)| c.len()) {
            if c.len() < best.len() {
                best = c;
                improved = true;
            }
        }
        if !improved {
            if chunk == 1 {
                break;
            }
            chunk /= 2;
        } else {
            chunk = chunk.min((best.len() / 2).max(1));
        }
    }
    // zero entries (prefer simpler choices)
    if t0.elapsed() < budget {
        let idxs: Vec<usize> = (0..best.len()).filter(|&i| best[i] != 0).collect();
        let cands: Vec<(usize, Vec<u32>)> = idxs
            .iter()
            .map(|&i| {
                let mut c = best.clone();
                c[i] = 0;
                (i, c)
            })
            .collect();
        let base2 = base.clone();
        let (p, inv) = (prop.to_string(), invariant.to_string());
        let results = parallel(cands, nworkers(), move |(i, c)| (i, reproduces(&base2, &c, &p, &inv, timeout, &format!("_z{i}")).is_some()));
        tries += results.len();
        // apply compatible zeroings greedily, verifying the combination
        let zero_ok: Vec<usize> = results.into_iter().filter(|(_, ok)| *ok).map(|(i, _)| i).collect();
        if !zero_ok.is_empty() {
            let mut c = best.clone();
            for i in &zero_ok {
                c[*i] = 0;
            }
            tries += 1;
            if reproduces(base, &c, prop, invariant, timeout, "_zz").is_some() {
                best = c;
            }
        }
    }
    (best, tries)
}

pub fn write_replay(cfg: &CheckCfg, spec: &WorkerSpec, tape: &[u32], prop: &str, invariant: &str, res: &WorkerResult, minimised_from: usize, tries: usize) -> String {
    let dir = format!("{VERIF}/replays");
    let _ = std::fs::create_dir_all(&dir);
    let path = format!("{dir}/{}_{}_{}_{}.json", prop, invariant, cfg.seed, spec.run_idx);
    let tail: Vec<&String> = res.log.iter().rev().take(60).collect::<Vec<_>>().into_iter().rev().collect();
    let j = json!({
        "property": prop,
        "invariant": invariant,
        "seed": cfg.seed,
        // the seed of this run (what an empty tape is re-run from), as a string: it does not fit a double
        "run_seed": spec.seed.to_string(),
        "run_idx": spec.run_idx,
        "mode": spec.mode,
        "params": spec.params,
        "program": spec.program,
        "tape": tape,
        "minimised_from_tape_len": minimised_from,
        "minimisation_runs": tries,
        "violations": res.violations,
        "detail": res.detail,
        "log_tail": tail,
        "how_to_replay": format!("cd /verif && ./check.sh replay {path}"),
    });
    std::fs::write(&path, serde_json::to_string_pretty(&j).unwrap()).unwrap();
    path
}

/// `bssim replay <file>`: rebuild the program, feed the tape, report.
pub fn replay(path: &str) -> i32 {
    let Ok(s) = std::fs::read_to_string(path) else {
        eprintln!("cannot read {path}");
        return 2;
    };
    let j: Value = serde_json::from_str(&s).unwrap();
    let program: ProgramSpec = serde_json::from_value(j["program"].clone()).unwrap();
    let built = match compile::build(&program) {
        Ok(b) => b,
        Err(e) => {
            eprintln!("{e}");
            return 2;
        }
    };
    let prop = j["property"].as_str().unwrap().to_string();
    let inv = j["invariant"].as_str().unwrap().to_string();
    let tape: Vec<u32> = serde_json::from_value(j["tape"].clone()).unwrap_or_default();
    let params: BTreeMap<String, Value> = serde_json::from_value(j["params"].clone()).unwrap_or_default();
    let out = scratch_dir(&prop).join(format!("replay_{}.json", std::process::id()));
    let spec = WorkerSpec { property: prop.clone(), mode: j["mode"].as_str().unwrap().into(), seed: j["run_seed"].as_str().and_then(|x| x.parse().ok()).unwrap_or_else(|| j["seed"].as_u64().unwrap_or(0)), run_idx: j["run_idx"].as_u64().unwrap_or(0), program, bin: built.bin.to_string_lossy().into(), src_file: built.src_file.clone(), tape: if tape.is_empty() { None } else { Some(tape) }, out: out.to_string_lossy().into(), params };
    let r = run_worker(&spec, Duration::from_secs(120));
    for l in &r.log {
        println!("{l}");
    }
    println!("verdict: {} {}", r.verdict, r.detail);
    let hit = match inv.as_str() {
        "worker_crash" => r.verdict == "crash" || r.verdict == "panic",
        "worker_timeout" => r.verdict == "timeout",
        _ => r.violations.iter().any(|v| v.property == prop && v.invariant == inv),
    };
    if hit {
        println!("VIOLATION property={prop} replay={path}");
        1
    } else {
        println!("replay did not reproduce {prop}:{inv}");
        0
    }
}

pub struct Outcome {
    pub exit: i32,
}

/// Generic check loop.  `make_specs` produces the worker specs for the corpus.
pub fn run_check(cfg: CheckCfg, specs: Vec<WorkerSpec>, corpus_info: Value) -> i32 {
    let t0 = Instant::now();
    let prop = cfg.prop.clone();
    let timeout = cfg.timeout;
    // diagnosis: BSSIM_ONLY_RUNS=1700,1725 keeps just these run indexes
    let specs: Vec<WorkerSpec> = match std::env::var("BSSIM_ONLY_RUNS") {
        Ok(l) => {
            let keep: Vec<u64> = l.split(',').filter_map(|x| x.trim().parse().ok()).collect();
            specs.into_iter().filter(|s| keep.contains(&s.run_idx)).collect()
        }
        Err(_) => specs,
    };
    let total = specs.len();
    let results: Vec<RunRecord> = parallel(specs, nworkers(), move |s| {
        let t = Instant::now();
        let r = run_worker(&s, timeout);
        RunRecord { spec: s, res: r, wall_ms: t.elapsed().as_millis() as u64 }
    });
    let t_runs = t0.elapsed().as_secs_f64();
    // determinism: re-run a sample, logs must be identical
    let mut det_checked = 0usize;
    let mut det_div = vec![];
    // BSSIM_DET_PAIRS overrides the sample size (diagnosis: "all" repeats every run)
    let det_pairs = match std::env::var("BSSIM_DET_PAIRS").ok().as_deref() {
        Some("all") => results.len(),
        Some(n) => n.parse().unwrap_or(cfg.det_pairs),
        None => cfg.det_pairs,
    };
    let mut det_backstop = 0usize;
    if det_pairs > 0 && !results.is_empty() {
        let step = (results.len() / det_pairs).max(1);
        let sample: Vec<(usize, WorkerSpec)> = results
            .iter()
            .enumerate()
            .step_by(step)
            .take(det_pairs)
            .map(|(i, r)| {
                let mut s = r.spec.clone();
                s.out = format!("{}.det", s.out);
                (i, s)
            })
            .collect();
        // second execution at a different worker count
        let again = parallel(sample, (nworkers() / 4).max(1), move |(i, s)| (i, run_worker(&s, timeout)));
        for (i, r2) in again {
            det_checked += 1;
            let r1 = &results[i].res;
            // Once an invariant has failed the system is outside the model (tasks may run where
            // the model says they are stopped), so observations made after that point are not
            // required to repeat: compare up to and including the first violation line.
            let cut = |l: &Vec<String>| -> Vec<String> {
                match l.iter().position(|x| x.trim_start().starts_with("!! ")) {
                    Some(p) => l[..=p].iter().map(|x| if x.trim_start().starts_with("!! ") { x.split_whitespace().take(2).collect::<Vec<_>>().join(" ") } else { x.clone() }).collect(),
                    None => l.clone(),
                }
            };
            let (l1, l2) = (cut(&r1.log), cut(&r2.log));
            let failed1 = r1.verdict != "ok";
            let failed2 = r2.verdict != "ok";
            let no_log = |r: &WorkerResult| r.log.is_empty() && matches!(r.verdict.as_str(), "timeout" | "crash");
            if failed1 && failed2 && (no_log(r1) || no_log(&r2)) {
                continue; // both executions failed, one of them without a log to compare
            }
            // The wall-clock backstop is outside the simulated world (it only fires when the
            // machine is overloaded or a run really hangs; a real hang shows in both executions
            // and is reported as a violation by the main pass): one execution cut by it while the
            // other one completed is counted, not compared.
            if (r1.verdict == "timeout") != (r2.verdict == "timeout") {
                let n = l1.len().min(l2.len());
                if l1[..n] == l2[..n] {
                    det_backstop += 1;
                    continue;
                }
            }
            let same = if failed1 && failed2 {
                // panics report through the partial log: compare the common prefix
                let n = l1.len().min(l2.len());
                l1[..n] == l2[..n] && (n > 0 || l1.len() == l2.len())
            } else {
                l1 == l2 && r1.verdict == r2.verdict
            };
            if !same {
                let k = r1.log.iter().zip(r2.log.iter()).position(|(a, b)| a != b).unwrap_or(r1.log.len().min(r2.log.len()));
                if let Ok(d) = std::env::var("BSSIM_DIV_DUMP") {
                    let _ = std::fs::write(format!("{d}/div_{}_a.log", results[i].spec.run_idx), r1.log.join("\n"));
                    let _ = std::fs::write(format!("{d}/div_{}_b.log", results[i].spec.run_idx), r2.log.join("\n"));
                }
                det_div.push(format!("run {} diverges at log line {k}: {:?} vs {:?} (verdicts {} / {})", results[i].spec.run_idx, r1.log.get(k), r2.log.get(k), r1.verdict, r2.verdict));
            }
        }
    }
    if let Ok(d) = std::env::var("BSSIM_LOG_DUMP") {
        for r in &results {
            let _ = std::fs::write(format!("{d}/run_{}_{}.log", r.spec.mode, r.spec.run_idx), r.res.log.join("\n"));
        }
    }
    let t_det = t0.elapsed().as_secs_f64() - t_runs;
    eprintln!("[timing] runs {t_runs:.1}s determinism {t_det:.1}s");
    // aggregate
    let mut stats: BTreeMap<String, u64> = BTreeMap::new();
    let mut histories: BTreeSet<u64> = BTreeSet::new();
    let mut nontrivial = 0usize;
    let mut ops = 0u64;
    let mut seam_calls = 0u64;
    let mut harness_errors = vec![];
    let mut by_inv: BTreeMap<String, Vec<usize>> = BTreeMap::new();
    let mut foreign: BTreeMap<String, u64> = BTreeMap::new();
    for (i, rr) in results.iter().enumerate() {
        let r = &rr.res;
        for (k, v) in &r.stats {
            if k.ends_with(".max_depth") || k.ends_with(".max") {
                let e = stats.entry(k.clone()).or_default();
                *e = (*e).max(*v);
            } else {
                *stats.entry(k.clone()).or_default() += v;
            }
        }
        ops += r.ops as u64;
        seam_calls += r.seam_calls;
        if r.ops >= 3 && histories.insert(r.log_hash()) {
            nontrivial += 1;
        }
        match r.verdict.as_str() {
            "harness_error" => harness_errors.push(format!("run {}: {}", rr.spec.run_idx, r.detail)),
            "crash" | "panic" => by_inv.entry("worker_crash".into()).or_default().push(i),
            "timeout" => by_inv.entry("worker_timeout".into()).or_default().push(i),
            _ => {}
        }
        for v in &r.violations {
            if v.property == prop {
                let e = by_inv.entry(v.invariant.clone()).or_default();
                if e.last() != Some(&i) {
                    e.push(i);
                }
            } else {
                *foreign.entry(format!("{}:{}", v.property, v.invariant)).or_default() += 1;
            }
        }
    }
    {
        // per-run summary for debugging (scratch, not evidence)
        let rows: Vec<Value> = results.iter().map(|r| json!({"run": r.spec.run_idx, "seed": r.spec.seed, "verdict": r.res.verdict, "detail": r.res.detail, "violations": r.res.violations.iter().map(|v| format!("{}:{}", v.property, v.invariant)).collect::<Vec<_>>(), "ops": r.res.ops, "wall_ms": r.wall_ms})).collect();
        let _ = std::fs::write(scratch_dir(&prop).join(format!("summary_{}.json", results.first().map(|r| r.spec.mode.clone()).unwrap_or_default())), serde_json::to_string_pretty(&rows).unwrap());
    }
    let known = load_known();
    let mut exit = 0;
    let mut violation_lines = vec![];
    let mut known_lines = vec![];
    let mut n_viol = 0;
    let min_budget = if cfg.tier == "quick" { Duration::from_secs(40) } else { Duration::from_secs(180) };
    let mut reported = 0;
    let mut infra_timeouts = 0usize;
    for (inv, idxs) in &by_inv {
        if let Some(k) = known.iter().find(|k| k.property == prop && &k.invariant == inv) {
            known_lines.push(format!("KNOWN-FINDING: property={prop} {} [{}] ({} runs this time, e.g. run {})", k.what, k.id, idxs.len(), results[idxs[0]].spec.run_idx));
            continue;
        }
        n_viol += idxs.len();
        if reported >= 3 {
            violation_lines.push(format!("(further violation class {prop}:{inv} in {} runs not minimised)", idxs.len()));
            exit = 1;
            continue;
        }
        reported += 1;
        // pick the run with the shortest tape
        let &i = idxs.iter().min_by_key(|&&i| results[i].res.tape.len()).unwrap();
        let rr = &results[i];
        let base = rr.spec.clone();
        let mut tape0 = rr.res.tape.clone();
        // confirm by replay in a fresh worker, then minimise
        let mut confirmed = reproduces(&base, &tape0, &prop, inv, timeout, "_c");
        if confirmed.is_none() && inv == "worker_crash" && !tape0.is_empty() {
            // a worker that died reports the tape as it stood before the operation that killed
            // it: the draws of that operation are missing, so the tape replays a different
            // operation. The same run from its seed is the faithful repetition.
            tape0 = vec![];
            confirmed = reproduces(&base, &tape0, &prop, inv, timeout, "_s");
        }
        match confirmed {
            None if inv == "worker_timeout" => {
                // the wall-clock backstop fired (machine load) but the same seed completes
                // without complaint when re-run: recorded, not an alarm
                infra_timeouts += idxs.len();
                n_viol -= idxs.len();
            }
            None => {
                harness_errors.push(format!("violation {prop}:{inv} of run {} did not reproduce on replay (nondeterminism)", base.run_idx));
            }
            Some(_) => {
                let (tape, tries) = if tape0.is_empty() { (tape0.clone(), 0) } else { minimise(&base, tape0.clone(), &prop, inv, timeout, min_budget) };
                let fin = reproduces(&base, &tape, &prop, inv, timeout, "_f").unwrap_or_else(|| rr.res.clone());
                let path = write_replay(&cfg, &base, &tape, &prop, inv, &fin, tape0.len(), tries);
                let d = fin.violations.iter().find(|v| v.property == prop && &v.invariant == inv).map(|v| v.detail.clone()).unwrap_or(fin.detail.clone());
                violation_lines.push(format!("VIOLATION property={prop} replay={path}"));
                violation_lines.push(format!("  invariant={inv} runs={} minimised tape {} -> {} ({} replays): {}", idxs.len(), tape0.len(), tape.len(), tries, d.chars().take(300).collect::<String>()));
                exit = 1;
            }
        }
    }
    // vacuity: required probes
    let mut vacuous = vec![];
    for p in &cfg.required_probes {
        if stats.get(p).copied().unwrap_or(0) == 0 {
            vacuous.push(p.clone());
        }
    }
    let wall = t0.elapsed().as_secs_f64();
    let samples: Vec<Value> = results.iter().filter(|r| r.res.ops >= 5).take(3).map(|r| json!({"run": r.spec.run_idx, "program_hash": compile::program_hash(&r.spec.program), "toolchain": r.spec.program.toolchain, "opt_level": r.spec.program.opt_level, "log": r.res.log.iter().take(40).collect::<Vec<_>>() })).collect();
    let samples = if samples.is_empty() { results.iter().take(1).map(|r| json!({"run": r.spec.run_idx, "log": r.res.log})).collect() } else { samples };
    let ev = json!({
        "property_id": prop,
        "tier": cfg.tier,
        "seed": cfg.seed,
        "level": cfg.level,
        "wall_s": wall,
        "violations": n_viol,
        "coverage": {
            "evaluations": total,
            "distinct_nontrivial": nontrivial,
            "rule": cfg.rule,
            "samples": samples,
            "operations_executed": ops,
            "simulated_steps_seam_calls": seam_calls,
            "runs_per_hour": if wall > 0.0 { (total as f64 / wall * 3600.0) as u64 } else { 0 },
            "seeds": format!("VERIF_SEED={} -> per-run seed = derive(seed, property, run index); {} runs", cfg.seed, total),
            "corpus": corpus_info,
            "probes_and_fault_counts": stats,
            "determinism_pairs_checked": det_checked,
            "determinism_divergences": det_div.len(),
            "wall_clock_backstop_fired_but_rerun_completed": infra_timeouts,
            "determinism_pairs_cut_by_wall_clock_backstop": det_backstop,
            "violations_of_other_properties_seen_in_these_runs": foreign,
            "known_findings_hit": known_lines,
            "real_vs_stub": cfg.real_stub,
            "simulated_time": "logical time = index of the debugger's syscall at the seam; no wall clock enters any decision",
        },
        "assumptions": cfg.assumptions,
    });
    let _ = std::fs::create_dir_all(format!("{VERIF}/evidence"));
    std::fs::write(format!("{VERIF}/evidence/{prop}.json"), serde_json::to_string_pretty(&ev).unwrap()).unwrap();
    println!("check {prop} tier={} seed={} runs={} distinct_histories={} ops={} seam_calls={} wall={:.1}s det_pairs={}/{} ok", cfg.tier, cfg.seed, total, nontrivial, ops, seam_calls, wall, det_checked - det_div.len(), det_checked);
    for l in &known_lines {
        println!("{l}");
    }
    if !det_div.is_empty() {
        for d in &det_div {
            eprintln!("HARNESS-ERROR nondeterminism: {d}");
        }
        return 2;
    }
    if !harness_errors.is_empty() {
        for d in harness_errors.iter().take(10) {
            eprintln!("HARNESS-ERROR {d}");
        }
        return 2;
    }
    if exit == 0 && !vacuous.is_empty() {
        eprintln!("HARNESS-ERROR vacuous run: reach probes stuck at zero: {vacuous:?}");
        return 2;
    }
    for l in &violation_lines {
        println!("{l}");
    }
    exit
}

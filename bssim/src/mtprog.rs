//! The `mt` family: one pre-written *interpreter* debuggee.  Every thread loops
//! `gate -> read command word -> act`; the simulator writes the command when it releases the
//! thread, so the whole multi-thread behaviour is a function of the decision list.
//!
//! Control block (shared file mapping, u32 words; path in $VERIF_CTL):
//!   [0..64) ticket | [64..128) phase | [128..192) tid | [192..256) cmd | [256..320) arg
//!   [320..324) CTR0..3 copied at exit | [336..368) handler counts copied at exit | [370] done
//! parked(i)  <=>  phase[i] == ticket[i] + 1

use crate::progen::ProgramSpec;
use crate::rng::Tape;

pub const W_TICKET: usize = 0;
pub const W_PHASE: usize = 64;
pub const W_TID: usize = 128;
pub const W_CMD: usize = 192;
pub const W_ARG: usize = 256;
pub const W_CTR: usize = 320;
pub const W_HCNT: usize = 336;
pub const W_DONE: usize = 370;
pub const MAX_THREADS: usize = 64;
pub const NSITES: usize = 4;

pub const CMD_SITE: u32 = 1;
pub const CMD_SPAWN: u32 = 3;
pub const CMD_EXIT: u32 = 4;
pub const CMD_JOIN: u32 = 5;
pub const CMD_RAISE: u32 = 6;
pub const CMD_NOP: u32 = 7;
pub const CMD_TOUCH: u32 = 8;
pub const CMD_FINISH: u32 = 9;

/// signals with a counting handler installed by the debuggee
pub const HANDLED: &[i32] = &[10, 12, 15, 28, 14, 23, 17, 29, 26, 27, 2];
pub const QUIET: &[i32] = &[14, 23, 17, 29, 26, 27];

pub const SRC: &str = r#"#![no_std]
#![no_main]
#![allow(unused)]
use core::panic::PanicInfo;
use core::sync::atomic::{AtomicU32, AtomicU64, Ordering};
#[panic_handler]
fn panic(_: &PanicInfo) -> ! { unsafe { exit(101) } }
#[unsafe(no_mangle)] pub extern "C" fn rust_eh_personality() {}
#[link(name = "c")]
unsafe extern "C" {
    fn write(fd: i32, buf: *const u8, n: usize) -> isize;
    fn exit(code: i32) -> !;
    fn getenv(name: *const u8) -> *const u8;
    fn open(path: *const u8, flags: i32, ...) -> i32;
    fn mmap(addr: *mut u8, len: usize, prot: i32, flags: i32, fd: i32, off: i64) -> *mut u8;
    fn syscall(num: i64, ...) -> i64;
    fn pthread_create(t: *mut u64, attr: *const u8, f: extern "C" fn(*mut u8) -> *mut u8, arg: *mut u8) -> i32;
    fn pthread_join(t: u64, ret: *mut *mut u8) -> i32;
    fn signal(sig: i32, h: extern "C" fn(i32)) -> usize;
    fn getpid() -> i32;
}
static mut CTL: *mut u32 = core::ptr::null_mut();
#[unsafe(no_mangle)] pub static CTR0: AtomicU64 = AtomicU64::new(0);
#[unsafe(no_mangle)] pub static CTR1: AtomicU64 = AtomicU64::new(0);
#[unsafe(no_mangle)] pub static CTR2: AtomicU64 = AtomicU64::new(0);
#[unsafe(no_mangle)] pub static CTR3: AtomicU64 = AtomicU64::new(0);
#[unsafe(no_mangle)] pub static WATCHED: [AtomicU64; 8] = [const { AtomicU64::new(0) }; 8];
pub static HCNT: [AtomicU32; 32] = [const { AtomicU32::new(0) }; 32];
extern "C" fn on_sig(s: i32) {
    HCNT[(s as usize) & 31].fetch_add(1, Ordering::SeqCst);
}
static NEXT_IDX: AtomicU32 = AtomicU32::new(1);
static mut HANDLES: [u64; 64] = [0; 64];
fn word(i: usize) -> &'static AtomicU32 {
    unsafe { &*(CTL.add(i) as *const AtomicU32) }
}
#[inline(never)]
fn gate(me: usize, consumed: &mut u32) -> (u32, u32) {
    word(64 + me).fetch_add(1, Ordering::SeqCst);
    loop {
        let t = word(me).load(Ordering::SeqCst);
        if t > *consumed {
            break;
        }
        unsafe { syscall(202, CTL.add(me), 0i32, t, 0usize); }
    }
    *consumed += 1;
    (word(192 + me).load(Ordering::SeqCst), word(256 + me).load(Ordering::SeqCst))
}
#[inline(never)]
#[unsafe(no_mangle)]
pub fn site0() {
    unsafe { core::arch::asm!("lock inc qword ptr [rip + {c}]", c = sym CTR0) }
}
#[inline(never)]
#[unsafe(no_mangle)]
pub fn site1() {
    unsafe { core::arch::asm!("lock inc qword ptr [rip + {c}]", c = sym CTR1) }
}
#[inline(never)]
#[unsafe(no_mangle)]
pub fn site2() {
    unsafe { core::arch::asm!("lock inc qword ptr [rip + {c}]", c = sym CTR2) }
}
#[inline(never)]
#[unsafe(no_mangle)]
pub fn site3() {
    unsafe { core::arch::asm!("lock inc qword ptr [rip + {c}]", c = sym CTR3) }
}
extern "C" fn th(arg: *mut u8) -> *mut u8 {
    run(arg as usize);
    core::ptr::null_mut()
}
#[inline(never)]
fn run(me: usize) {
    let tid = unsafe { syscall(186) } as u32;
    word(128 + me).store(tid, Ordering::SeqCst);
    let mut consumed = 0u32;
    loop {
        let (cmd, arg) = gate(me, &mut consumed);
        match cmd {
            1 => match arg {
                0 => site0(),
                1 => site1(),
                2 => site2(),
                _ => site3(),
            },
            3 => {
                let idx = NEXT_IDX.fetch_add(1, Ordering::SeqCst) as usize;
                unsafe { pthread_create(&raw mut HANDLES[idx], core::ptr::null(), th, idx as *mut u8); }
            }
            4 => return,
            5 => {
                let n = NEXT_IDX.load(Ordering::SeqCst) as usize;
                let mut i = 1;
                while i < n {
                    unsafe { pthread_join(HANDLES[i], core::ptr::null_mut()); }
                    i += 1;
                }
            }
            6 => unsafe { syscall(234, getpid(), tid as i32, arg as i32); },
            8 => { WATCHED[(arg & 7) as usize].fetch_add(1, Ordering::SeqCst); }
            9 => return,
            _ => {}
        }
    }
}
#[unsafe(no_mangle)]
pub extern "C" fn main(_argc: i32, _argv: *const *const u8) -> i32 {
    unsafe {
        let p = getenv(b"VERIF_CTL\0".as_ptr());
        if p.is_null() { exit(90); }
        let fd = open(p, 2);
        if fd < 0 { exit(91); }
        CTL = mmap(core::ptr::null_mut(), 4096, 3, 1, fd, 0) as *mut u32;
        let sigs = [10, 12, 15, 28, 14, 23, 17, 29, 26, 27, 2];
        let mut k = 0;
        while k < sigs.len() { signal(sigs[k], on_sig); k += 1; }
    }
    run(0);
    let c = [CTR0.load(Ordering::SeqCst), CTR1.load(Ordering::SeqCst), CTR2.load(Ordering::SeqCst), CTR3.load(Ordering::SeqCst)];
    let mut k = 0;
    while k < 4 { word(320 + k).store(c[k] as u32, Ordering::SeqCst); k += 1; }
    k = 0;
    while k < 32 { word(336 + k).store(HCNT[k].load(Ordering::SeqCst), Ordering::SeqCst); k += 1; }
    word(370).store(1, Ordering::SeqCst);
    let mut buf = [0u8; 16];
    k = 0;
    while k < 4 { buf[2 * k] = b'a' + (c[k] % 26) as u8; buf[2 * k + 1] = b' '; k += 1; }
    buf[8] = b'\n';
    unsafe { write(1, buf.as_ptr(), 9); }
    ((c[0] * 27 + c[1] * 9 + c[2] * 3 + c[3]) & 0x7f) as i32
}
"#;

pub fn mt_program(t: &mut Tape) -> ProgramSpec {
    let toolchain = ["1.89", "stable", "nightly"][t.choose(3)].to_string();
    let opt_level = [0u8, 1][t.choose(2)];
    ProgramSpec { family: "mt".into(), toolchain, opt_level, pie: true, src: SRC.into(), functions: vec!["site0".into(), "site1".into(), "site2".into(), "site3".into()], extra_args: vec![] }
}

pub fn predicted_output(c: [u64; 4]) -> (String, i32) {
    let mut s = String::new();
    for k in 0..4 {
        s.push((b'a' + (c[k] % 26) as u8) as char);
        s.push(' ');
    }
    s.push('\n');
    (s, ((c[0] * 27 + c[1] * 9 + c[2] * 3 + c[3]) & 0x7f) as i32)
}

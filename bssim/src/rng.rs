//! Single source of randomness: a recorded/replayable *choice tape*.
//!
//! Every decision of a run (workload generation, scheduler choices, fault placement) is a
//! `choose(n)` on the tape.  In record mode the value comes from a splitmix64 PRNG seeded from
//! the run seed and is appended to the tape; in replay mode the value is read from the given
//! tape (modulo `n`, `0` once the tape is exhausted).  Logging never touches the tape.

#[derive(Clone)]
pub struct SplitMix(pub u64);

impl SplitMix {
    pub fn next(&mut self) -> u64 {
        self.0 = self.0.wrapping_add(0x9E37_79B9_7F4A_7C15);
        let mut z = self.0;
        z = (z ^ (z >> 30)).wrapping_mul(0xBF58_476D_1CE4_E5B9);
        z = (z ^ (z >> 27)).wrapping_mul(0x94D0_49BB_1331_11EB);
        z ^ (z >> 31)
    }
}

/// Derive an independent seed from (seed, label, index).
pub fn derive(seed: u64, label: &str, idx: u64) -> u64 {
    let mut h = SplitMix(seed ^ 0xA076_1D64_78BD_642F);
    let mut acc = h.next();
    for b in label.bytes() {
        acc = SplitMix(acc ^ b as u64).next();
    }
    SplitMix(acc ^ idx.wrapping_mul(0xD6E8_FEB8_6659_FD93)).next()
}

pub struct Tape {
    rng: SplitMix,
    replay: Option<Vec<u32>>,
    pub rec: Vec<u32>,
    idx: usize,
}

impl Tape {
    pub fn record(seed: u64) -> Self {
        Tape { rng: SplitMix(seed), replay: None, rec: Vec::new(), idx: 0 }
    }
    pub fn replay(tape: Vec<u32>) -> Self {
        Tape { rng: SplitMix(0), replay: Some(tape), rec: Vec::new(), idx: 0 }
    }
    /// A value in `0..n` (n >= 1).
    pub fn choose(&mut self, n: usize) -> usize {
        let n = n.max(1);
        let v = match &self.replay {
            None => (self.rng.next() % n as u64) as u32,
            Some(t) => {
                let v = t.get(self.idx).copied().unwrap_or(0);
                v % n as u32
            }
        };
        self.idx += 1;
        self.rec.push(v);
        v as usize
    }
    /// True with probability num/den.
    pub fn chance(&mut self, num: usize, den: usize) -> bool {
        self.choose(den) < num
    }
    pub fn range(&mut self, lo: usize, hi_incl: usize) -> usize {
        lo + self.choose(hi_incl - lo + 1)
    }
    pub fn pick<'a, T>(&mut self, v: &'a [T]) -> &'a T {
        &v[self.choose(v.len())]
    }
    pub fn len(&self) -> usize {
        self.idx
    }
}

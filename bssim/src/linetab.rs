//! Independent line table: decoded by `llvm-dwarfdump --debug-line`, never by BugStalker.

use serde::{Deserialize, Serialize};
use std::collections::{BTreeMap, BTreeSet};
use std::path::Path;

#[derive(Clone, Debug, Serialize, Deserialize)]
pub struct Row {
    pub addr: u64,
    pub line: u64,
    pub col: u64,
    pub file: u32, // index into LineTable.files
    pub is_stmt: bool,
    pub prologue_end: bool,
    pub epilogue_begin: bool,
}

#[derive(Clone, Debug, Serialize, Deserialize)]
pub struct Seq {
    pub start: u64,
    pub end: u64,
    pub rows: Vec<Row>,
}

#[derive(Clone, Debug, Default, Serialize, Deserialize)]
pub struct LineTable {
    pub files: Vec<String>,
    pub seqs: Vec<Seq>, // sorted by start
    /// address ranges of DW_TAG_inlined_subroutine instances (sorted)
    #[serde(default)]
    pub inlined: Vec<(u64, u64)>,
}

pub fn load(bin: &Path) -> Result<LineTable, String> {
    let cache = bin.with_extension("lines.json");
    if let Ok(s) = std::fs::read_to_string(&cache) {
        if let Ok(t) = serde_json::from_str::<LineTable>(&s) {
            return Ok(t);
        }
    }
    let o = std::process::Command::new("llvm-dwarfdump").arg("--debug-line").arg(bin).output().map_err(|e| format!("llvm-dwarfdump: {e}"))?;
    if !o.status.success() {
        return Err("llvm-dwarfdump failed".into());
    }
    let mut t = parse(&String::from_utf8_lossy(&o.stdout));
    let o = std::process::Command::new("llvm-dwarfdump").arg("--debug-info").arg(bin).output().map_err(|e| format!("llvm-dwarfdump: {e}"))?;
    if !o.status.success() {
        return Err("llvm-dwarfdump --debug-info failed".into());
    }
    t.inlined = parse_inlined(&String::from_utf8_lossy(&o.stdout));
    let tmp = bin.with_extension(format!("lines.tmp{}", std::process::id()));
    let _ = std::fs::write(&tmp, serde_json::to_string(&t).unwrap());
    let _ = std::fs::rename(&tmp, &cache);
    Ok(t)
}

pub fn parse(txt: &str) -> LineTable {
    let mut files: Vec<String> = vec![];
    let mut file_ids: BTreeMap<String, u32> = BTreeMap::new();
    let mut cu_files: BTreeMap<u64, u32> = BTreeMap::new(); // file index in CU -> global file id
    let mut cur_idx: Option<u64> = None;
    let mut seqs: Vec<Seq> = vec![];
    let mut cur: Vec<Row> = vec![];
    for l in txt.lines() {
        let l = l.trim();
        if l.starts_with("debug_line[") {
            cu_files.clear();
            cur.clear();
            cur_idx = None;
            continue;
        }
        if let Some(rest) = l.strip_prefix("file_names[") {
            cur_idx = rest.split(']').next().and_then(|s| s.trim().parse().ok());
            continue;
        }
        if let Some(n) = l.strip_prefix("name:") {
            if let Some(i) = cur_idx.take() {
                let name = n.trim().trim_matches('"').to_string();
                let id = *file_ids.entry(name.clone()).or_insert_with(|| {
                    files.push(name.clone());
                    (files.len() - 1) as u32
                });
                cu_files.insert(i, id);
            }
            continue;
        }
        if l.starts_with("0x") {
            let f: Vec<&str> = l.split_whitespace().collect();
            if f.len() < 6 {
                continue;
            }
            let Ok(addr) = u64::from_str_radix(&f[0][2..], 16) else { continue };
            let line: u64 = f[1].parse().unwrap_or(0);
            let col: u64 = f[2].parse().unwrap_or(0);
            let fidx: u64 = f[3].parse().unwrap_or(0);
            let flags = &f[6.min(f.len())..];
            let has = |s: &str| flags.iter().any(|x| *x == s);
            if has("end_sequence") {
                if !cur.is_empty() {
                    let start = cur[0].addr;
                    if addr > start {
                        seqs.push(Seq { start, end: addr, rows: std::mem::take(&mut cur) });
                    } else {
                        cur.clear();
                    }
                }
                continue;
            }
            let file = cu_files.get(&fidx).copied().unwrap_or(u32::MAX);
            cur.push(Row { addr, line, col, file, is_stmt: has("is_stmt"), prologue_end: has("prologue_end"), epilogue_begin: has("epilogue_begin") });
        }
    }
    // drop sequences of discarded code (start 0) and sort
    seqs.retain(|s| s.start != 0);
    seqs.sort_by_key(|s| s.start);
    LineTable { files, seqs, inlined: vec![] }
}

/// Address ranges of all inlined-subroutine instances, from `llvm-dwarfdump --debug-info`.
pub fn parse_inlined(txt: &str) -> Vec<(u64, u64)> {
    let hex = |s: &str| -> Option<u64> { u64::from_str_radix(s.trim().trim_start_matches("0x"), 16).ok() };
    let mut out = vec![];
    let mut in_inl = false;
    let mut in_ranges = false;
    let mut lo: Option<u64> = None;
    for l in txt.lines() {
        let t = l.trim();
        if t.contains("DW_TAG_") || t.ends_with("NULL") {
            in_inl = t.contains("DW_TAG_inlined_subroutine");
            in_ranges = false;
            lo = None;
            continue;
        }
        if !in_inl {
            continue;
        }
        if in_ranges {
            if let Some(rest) = t.strip_prefix('[') {
                let rest = rest.trim_end_matches(')');
                if let Some((a, b)) = rest.split_once(',') {
                    let b = b.trim().trim_end_matches(')');
                    if let (Some(a), Some(b)) = (hex(a), hex(b)) {
                        if b > a {
                            out.push((a, b));
                        }
                    }
                }
                continue;
            }
            in_ranges = false;
        }
        if let Some(r) = t.strip_prefix("DW_AT_low_pc") {
            lo = r.trim().trim_start_matches('(').trim_end_matches(')').split_whitespace().next().and_then(hex);
        } else if let Some(r) = t.strip_prefix("DW_AT_high_pc") {
            let hi = r.trim().trim_start_matches('(').trim_end_matches(')').split_whitespace().next().and_then(hex);
            if let (Some(a), Some(b)) = (lo, hi) {
                if b > a {
                    out.push((a, b));
                }
            }
        } else if t.starts_with("DW_AT_ranges") {
            in_ranges = true;
            // first range may be on the same line after the offset
            if let Some(i) = t.find('[') {
                let rest = &t[i + 1..];
                if let Some((a, b)) = rest.split_once(',') {
                    let b = b.trim().trim_end_matches(')');
                    if let (Some(a), Some(b)) = (hex(a), hex(b)) {
                        if b > a {
                            out.push((a, b));
                        }
                    }
                }
            }
        }
    }
    out.sort();
    out.dedup();
    out
}

impl LineTable {
    fn seq_of(&self, addr: u64) -> Option<&Seq> {
        let i = self.seqs.partition_point(|s| s.start <= addr);
        if i == 0 {
            return None;
        }
        // sequences may overlap in theory; scan back a little
        self.seqs[..i].iter().rev().take(4).find(|s| addr >= s.start && addr < s.end)
    }
    pub fn in_inlined(&self, addr: u64) -> bool {
        self.inlined.iter().any(|(a, b)| addr >= *a && addr < *b)
    }
    pub fn has_rows(&self, addr: u64) -> bool {
        self.seq_of(addr).is_some()
    }
    pub fn rows_at(&self, addr: u64) -> Vec<&Row> {
        match self.seq_of(addr) {
            Some(s) => s.rows.iter().filter(|r| r.addr == addr).collect(),
            None => vec![],
        }
    }
    pub fn is_stmt_addr(&self, addr: u64) -> bool {
        self.rows_at(addr).iter().any(|r| r.is_stmt)
    }
    /// rows governing `addr`: all rows at the greatest row address <= addr in its sequence
    pub fn rows_for(&self, addr: u64) -> Vec<&Row> {
        let Some(s) = self.seq_of(addr) else { return vec![] };
        let a = s.rows.iter().filter(|r| r.addr <= addr).map(|r| r.addr).max();
        match a {
            Some(a) => s.rows.iter().filter(|r| r.addr == a).collect(),
            None => vec![],
        }
    }
    pub fn lines_for(&self, addr: u64) -> BTreeSet<(u32, u64)> {
        self.rows_for(addr).iter().map(|r| (r.file, r.line)).collect()
    }
    pub fn file_id(&self, suffix: &str) -> Option<u32> {
        self.files.iter().position(|f| f.ends_with(suffix)).map(|i| i as u32)
    }
    /// all is_stmt row addresses of `file`:`line`
    pub fn stmt_addrs_of_line(&self, file: u32, line: u64) -> BTreeSet<u64> {
        self.seqs.iter().flat_map(|s| s.rows.iter()).filter(|r| r.file == file && r.line == line && r.is_stmt).map(|r| r.addr).collect()
    }
    pub fn stmt_lines(&self, file: u32) -> BTreeSet<u64> {
        self.seqs.iter().flat_map(|s| s.rows.iter()).filter(|r| r.file == file && r.is_stmt && r.line != 0).map(|r| r.line).collect()
    }
    pub fn all_stmt_addrs(&self, file: u32) -> BTreeSet<u64> {
        self.seqs.iter().flat_map(|s| s.rows.iter()).filter(|r| r.file == file && r.is_stmt && r.line != 0).map(|r| r.addr).collect()
    }
}

/// Instruction start addresses (file addresses) of the executable sections, decoded by
/// llvm-objdump; cached next to the binary.
pub fn insn_boundaries(bin: &Path) -> Result<BTreeSet<u64>, String> {
    let cache = bin.with_extension("insn.txt");
    let txt = match std::fs::read_to_string(&cache) {
        Ok(t) => t,
        Err(_) => {
            let o = std::process::Command::new("llvm-objdump").args(["-d", "--no-show-raw-insn"]).arg(bin).output().map_err(|e| format!("llvm-objdump: {e}"))?;
            if !o.status.success() {
                return Err("llvm-objdump failed".into());
            }
            let mut out = String::new();
            for l in String::from_utf8_lossy(&o.stdout).lines() {
                let t = l.trim_start();
                if let Some((a, _)) = t.split_once(':') {
                    if !a.is_empty() && a.len() <= 16 && a.bytes().all(|b| b.is_ascii_hexdigit()) && l.starts_with(' ') {
                        out.push_str(a);
                        out.push('\n');
                    }
                }
            }
            let tmp = bin.with_extension(format!("insn.tmp{}", std::process::id()));
            let _ = std::fs::write(&tmp, &out);
            let _ = std::fs::rename(&tmp, &cache);
            out
        }
    };
    Ok(txt.lines().filter_map(|l| u64::from_str_radix(l, 16).ok()).collect())
}

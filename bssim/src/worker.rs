//! Worker protocol: one run = one worker process = one seed, inside its own PID namespace.

use crate::progen::ProgramSpec;
use serde::{Deserialize, Serialize};
use std::collections::BTreeMap;

#[derive(Clone, Debug, Serialize, Deserialize)]
pub struct WorkerSpec {
    pub property: String,
    pub mode: String,
    pub seed: u64,
    pub run_idx: u64,
    pub program: ProgramSpec,
    pub bin: String,
    pub src_file: String,
    #[serde(default)]
    pub tape: Option<Vec<u32>>,
    pub out: String,
    #[serde(default)]
    pub params: BTreeMap<String, serde_json::Value>,
}

#[derive(Clone, Debug, Serialize, Deserialize, PartialEq)]
pub struct Violation {
    pub property: String,
    pub invariant: String,
    pub detail: String,
    pub step: usize,
}

#[derive(Clone, Debug, Default, Serialize, Deserialize)]
pub struct WorkerResult {
    pub verdict: String, // ok | violation | harness_error | panic
    pub violations: Vec<Violation>,
    pub detail: String,
    pub log: Vec<String>,
    pub tape: Vec<u32>,
    pub stats: BTreeMap<String, u64>,
    pub ops: usize,
    pub seam_calls: u64,
}

impl WorkerResult {
    pub fn log_hash(&self) -> u64 {
        crate::compile::hash_str(&self.log.join("\n"))
    }
    pub fn write(&self, path: &str) {
        let tmp = format!("{path}.tmp");
        let _ = std::fs::write(&tmp, serde_json::to_string(self).unwrap());
        let _ = std::fs::rename(&tmp, path);
    }
}

pub fn bump(stats: &mut BTreeMap<String, u64>, k: &str) {
    *stats.entry(k.to_string()).or_default() += 1;
}
pub fn add(stats: &mut BTreeMap<String, u64>, k: &str, n: u64) {
    *stats.entry(k.to_string()).or_default() += n;
}

/// Entry point of `bssim worker <specfile>`.
pub fn worker_main(spec_path: &str) -> i32 {
    let spec: WorkerSpec = match std::fs::read_to_string(spec_path).ok().and_then(|s| serde_json::from_str(&s).ok()) {
        Some(s) => s,
        None => {
            eprintln!("bssim worker: cannot read spec {spec_path}");
            return 2;
        }
    };
    let out = spec.out.clone();
    crate::ns::run_in_namespace(move || {
        let out2 = out.clone();
        std::panic::set_hook(Box::new(move |info| {
            let loc = info.location().map(|l| format!("{}:{}", l.file(), l.line())).unwrap_or_default();
            let msg = if let Some(s) = info.payload().downcast_ref::<&str>() {
                s.to_string()
            } else if let Some(s) = info.payload().downcast_ref::<String>() {
                s.clone()
            } else {
                "?".into()
            };
            let partial = crate::PARTIAL.lock().map(|p| p.clone()).unwrap_or_default();
            let bt = std::backtrace::Backtrace::force_capture().to_string();
            let frames: Vec<&str> = bt.lines().filter(|l| l.contains("/repo/src") || l.contains("bugstalker::")).take(24).collect();
            let mut log = partial.0;
            log.push(format!("panic backtrace: {}", frames.join(" | ")));
            let r = WorkerResult { verdict: "panic".into(), detail: format!("{loc}: {msg}"), log, tape: partial.1, ..Default::default() };
            r.write(&out2);
            unsafe { libc::_exit(3) };
        }));
        let extra: Vec<(String, String)> = spec
            .params
            .get("env")
            .and_then(|v| v.as_object())
            .map(|o| o.iter().map(|(k, v)| (k.clone(), v.as_str().unwrap_or("").to_string())).collect())
            .unwrap_or_default();
        crate::reftrace::pin_environment(&extra);
        crate::seam::set_random_seed(crate::rng::derive(spec.seed, "getrandom", 0));
        let res = match spec.mode.as_str() {
            "layer_a" => crate::layer_a::run(&spec),
            "dap" => crate::dap::run(&spec),
            "layer_b" => crate::layer_b::run(&spec),
            "session" => crate::session::run(&spec),
            "lib" => crate::libs::run(&spec),
            other => WorkerResult { verdict: "harness_error".into(), detail: format!("unknown mode {other}"), ..Default::default() },
        };
        res.write(&out);
        0
    })
}

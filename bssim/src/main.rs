mod checks;
mod compile;
mod dap;
mod dap13;
mod dap15;
mod layer_a;
mod layer_b;
mod libs;
mod mtprog;
mod linetab;
mod ns;
mod orch;
mod progen;
mod reftrace;
mod rng;
mod seam;
mod session;
mod worker;

use std::sync::Mutex;

/// log and tape so far, for the panic hook
pub static PARTIAL: Mutex<(Vec<String>, Vec<u32>)> = Mutex::new((Vec::new(), Vec::new()));

fn main() {
    let args: Vec<String> = std::env::args().collect();
    match args.get(1).map(|s| s.as_str()) {
        Some("check") => {
            let prop = args[2].clone();
            let tier = args.iter().position(|a| a == "--tier").and_then(|i| args.get(i + 1)).cloned().unwrap_or_else(|| std::env::var("VERIF_TIER").unwrap_or("quick".into()));
            std::process::exit(checks::check(&prop, &tier));
        }
        Some("replay") => std::process::exit(orch::replay(&args[2])),
        Some("worker") => std::process::exit(worker::worker_main(&args[2])),
        Some("denote") => {
            let (bin, src) = (args[2].clone(), args[3].clone());
            let fns: Vec<String> = args[4..].to_vec();
            let code = ns::run_in_namespace(move || match dap13::denote(&bin, &src, &fns) {
                Ok(()) => 0,
                Err(e) => {
                    eprintln!("denote: {e}");
                    2
                }
            });
            std::process::exit(code);
        }
        Some("gen") => {
            let seed: u64 = args[2].parse().unwrap();
            let mut t = rng::Tape::record(rng::derive(seed, "prog", 0));
            let p = progen::micro_program(&mut t);
            if args.get(3).map(|s| s == "src").unwrap_or(false) { println!("{}", p.src); }
            let b = compile::build(&p).unwrap_or_else(|e| { eprintln!("{e}"); std::process::exit(2) });
            let t0 = std::time::Instant::now();
            let tr = reftrace::trace_cached(&b.bin).unwrap();
            let lt = linetab::load(&b.bin).unwrap();
            println!("{} tc={} O{} pos={} acts={} maxdepth={} unique={} exit={} out={:?} steps={} foreign={} seqs={} files={} t={:?}",
                b.bin.display(), p.toolchain, p.opt_level, tr.pos.len(), tr.acts.len(), tr.acts.iter().map(|a| a.depth).max().unwrap(), tr.unique, tr.exit_code, tr.stdout, tr.steps, tr.foreign_crossings, lt.seqs.len(), lt.files.len(), t0.elapsed());
        }
        Some("run1") => {
            // run1 <property> <prog_seed> <run_seed>
            let prop = args[2].clone();
            let pseed: u64 = args[3].parse().unwrap();
            let rseed: u64 = args[4].parse().unwrap();
            let mut t = rng::Tape::record(rng::derive(pseed, "prog", 0));
            let p = progen::micro_program(&mut t);
            let b = compile::build(&p).unwrap_or_else(|e| { eprintln!("{e}"); std::process::exit(2) });
            reftrace::trace_cached(&b.bin).unwrap();
            linetab::load(&b.bin).unwrap();
            let dir = compile::cache_dir().join("runs");
            let _ = std::fs::create_dir_all(&dir);
            let out = dir.join(format!("r{}_{}.json", pseed, rseed));
            let _ = std::fs::remove_file(&out);
            let spec = worker::WorkerSpec { property: prop, mode: args.get(5).cloned().unwrap_or("layer_a".into()), seed: rseed, run_idx: 0, program: p, bin: b.bin.to_string_lossy().into(), src_file: b.src_file.clone(), tape: None, out: out.to_string_lossy().into(), params: Default::default() };
            let sp = dir.join(format!("s{}_{}.json", pseed, rseed));
            std::fs::write(&sp, serde_json::to_string(&spec).unwrap()).unwrap();
            let st = std::process::Command::new(std::env::current_exe().unwrap()).arg("worker").arg(&sp).status().unwrap();
            println!("worker status {st:?}");
            match std::fs::read_to_string(&out) {
                Ok(s) => { let r: worker::WorkerResult = serde_json::from_str(&s).unwrap(); println!("{}", r.log.join("\n")); println!("verdict {} {} ops {} stats {:?}", r.verdict, r.detail, r.ops, r.stats); }
                Err(e) => println!("no result: {e}"),
            }
        }
        _ => { eprintln!("usage"); std::process::exit(2); }
    }
}

//! C12/C13: the DAP adapter under a seeded scheduler.
//!
//! The session thread and the output-forwarder threads are real threads of the real adapter;
//! they are parked and released one at a time at the named schedule points of hook H1.  The
//! client is simulated (adaptive, seeded); the transport is an in-memory `DapTransport`.
//! All decisions come from the run's choice tape, so one seed is one interleaving.

use crate::rng::Tape;
use crate::seam;
use crate::worker::{Violation, WorkerResult, WorkerSpec, add, bump};
use bugstalker::dap::transport::DapTransport;
use bugstalker::dap::yadap::session::DebugSession;
use serde_json::{Value, json};
use std::collections::{BTreeMap, BTreeSet};
use std::sync::{Arc, Condvar, Mutex};

#[derive(Clone, Copy, PartialEq, Debug)]
enum Role {
    Session,
    Out,
    Err,
}

struct Th {
    role: Role,
    generation: usize,
    registered: bool,
    parked: Option<&'static str>,
    alive: bool,
    /// bytes the forwarder's BufReader has pulled from the pipe / bytes it has forwarded
    pulled: u64,
    forwarded: u64,
    fd: i32,
}

#[derive(Clone, Debug)]
pub enum Rec {
    Read(Value),
    Write(Value),
}

pub struct Ctl {
    threads: Vec<Th>,
    granted: Option<usize>,
    running: Option<usize>,
    tape: Tape,
    schedule: Vec<String>,
    generation: usize,
    pipes_seen: usize,
    records: Vec<Rec>,
    client: Box<dyn Driver>,
    stats: BTreeMap<String, u64>,
    decisions: u64,
    session_finished: bool,
    policy_session_first: bool,
}

pub struct Shared {
    m: Mutex<Ctl>,
    cv: Condvar,
}

thread_local! { static ME: std::cell::Cell<Option<usize>> = const { std::cell::Cell::new(None) }; }

fn fionread(fd: i32) -> u64 {
    let mut n: libc::c_int = 0;
    let r = unsafe { libc::ioctl(fd, libc::FIONREAD, &mut n) };
    if r < 0 { 0 } else { n as u64 }
}

/// every writer of the pipe is gone (a read returns the remaining bytes, then end of file)
fn pipe_hup(fd: i32) -> bool {
    let mut p = libc::pollfd { fd, events: libc::POLLIN, revents: 0 };
    let r = unsafe { libc::poll(&mut p, 1, 0) };
    r > 0 && (p.revents & libc::POLLHUP) != 0
}

impl Ctl {
    fn enabled(&self, i: usize) -> bool {
        let t = &self.threads[i];
        let Some(p) = t.parked else { return false };
        if !t.alive {
            return false;
        }
        match (t.role, p) {
            (Role::Session, "session.before_read") => self.client.has_next(),
            (Role::Out, "fwdout.before_read") | (Role::Err, "fwderr.before_read") => t.pulled > t.forwarded || fionread(t.fd) > 0 || (self.session_finished && pipe_hup(t.fd)),
            _ => true,
        }
    }
    fn all_parked(&self) -> bool {
        self.threads.iter().all(|t| !t.alive || (t.registered && t.parked.is_some()))
    }
    /// Take a scheduling decision if the world is quiescent.  Returns true if a grant was made.
    fn decide(&mut self) -> bool {
        if self.running.is_some() || self.granted.is_some() || !self.all_parked() {
            return false;
        }
        let mut en: Vec<usize> = (0..self.threads.len()).filter(|&i| self.enabled(i)).collect();
        if en.is_empty() {
            // the client has gone silent for good and nothing else can move: the session's read
            // returns "connection closed"
            let s = &self.threads[0];
            if s.alive && s.parked == Some("session.before_read") && !self.client.has_next() {
                en.push(0);
            } else {
                return false;
            }
        }
        let pick = if self.policy_session_first {
            *en.iter().find(|&&i| self.threads[i].role == Role::Session).unwrap_or(&en[0])
        } else if en.len() == 1 {
            en[0]
        } else {
            self.decisions += 1;
            en[self.tape.choose(en.len())]
        };
        if en.len() > 1 {
            bump(&mut self.stats, "c12.decisions_with_choice");
        }
        let p = self.threads[pick].parked.take().unwrap();
        let t = &mut self.threads[pick];
        if p.ends_with(".before_read") && t.role != Role::Session && t.pulled == t.forwarded {
            let n = fionread(t.fd).min(8192);
            t.pulled += n;
        }
        if p.ends_with(".after_seq") && t.role != Role::Session {
            // probe: a forwarder holding a sequence number while others are enabled
            if en.len() > 1 {
                bump(&mut self.stats, "c12.forwarder_released_between_seq_and_lock_with_rivals");
            }
        }
        if !self.session_finished {
            // (after the session has returned only end-of-file reads remain: their order is not
            // observable on the wire and not part of the canonical log)
            self.schedule.push(format!("{:?}{}:{}", t.role, t.generation, p.split('.').nth(1).unwrap_or(p)));
        }
        self.granted = Some(pick);
        true
    }
}

pub fn point(sh: &Arc<Shared>, name: &'static str) {
    let role = match name.split('.').next().unwrap() {
        "session" => Role::Session,
        "fwdout" => Role::Out,
        _ => Role::Err,
    };
    let mut g = sh.m.lock().unwrap();
    let me = match ME.with(|m| m.get()) {
        Some(i) => i,
        None => {
            // a forwarder may get here before the session announced it: wait for its slot
            let i = loop {
                let slot = match role {
                    Role::Session => Some(0),
                    _ => g.threads.iter().rposition(|t| t.role == role && !t.registered),
                };
                match slot {
                    Some(i) => break i,
                    None => g = sh.cv.wait(g).unwrap(),
                }
            };
            g.threads[i].registered = true;
            ME.with(|m| m.set(Some(i)));
            i
        }
    };
    if name == "session.spawned_forwarders" {
        g.generation += 1;
        let generation = g.generation;
        // the first two pipes created since the previous generation are stdout / stderr
        let pipes = seam::PIPES.lock().unwrap().clone();
        let base = g.pipes_seen;
        let (o, e) = (pipes.get(base).map(|p| p.0).unwrap_or(-1), pipes.get(base + 1).map(|p| p.0).unwrap_or(-1));
        g.pipes_seen = pipes.len();
        g.threads.push(Th { role: Role::Out, generation, registered: false, parked: None, alive: true, pulled: 0, forwarded: 0, fd: o });
        g.threads.push(Th { role: Role::Err, generation, registered: false, parked: None, alive: true, pulled: 0, forwarded: 0, fd: e });
    }
    if name.ends_with(".exit") {
        // the forwarder saw the end of its pipe and is about to return: it takes no further part
        g.threads[me].alive = false;
        g.threads[me].parked = None;
        if g.running == Some(me) {
            g.running = None;
        }
        if g.decide() {
            sh.cv.notify_all();
        }
        sh.cv.notify_all();
        return;
    }
    g.threads[me].parked = Some(name);
    if g.running == Some(me) {
        g.running = None;
    }
    sh.cv.notify_all();
    loop {
        if g.decide() {
            sh.cv.notify_all();
        }
        if g.granted == Some(me) {
            g.granted = None;
            g.running = Some(me);
            return;
        }
        if std::path::Path::new("/verif/scratch/TRACE").exists() {
            let (gg, to) = sh.cv.wait_timeout(g, std::time::Duration::from_secs(5)).unwrap();
            g = gg;
            if to.timed_out() {
                let tbl: Vec<String> = (0..g.threads.len()).map(|i| { let t = &g.threads[i]; format!("{:?}{} reg={} alive={} parked={:?} pulled={} fwd={} en={}", t.role, t.generation, t.registered, t.alive, t.parked, t.pulled, t.forwarded, g.enabled(i)) }).collect();
                eprintln!("STUCK me={me} running={:?} granted={:?} client_has_next={} threads: {tbl:#?}", g.running, g.granted, g.client.has_next());
            }
            continue;
        }
        g = sh.cv.wait(g).unwrap();
    }
}

struct SimTransport {
    sh: Arc<Shared>,
}

impl DapTransport for SimTransport {
    fn read_message(&mut self) -> anyhow::Result<Value> {
        let mut g = self.sh.m.lock().unwrap();
        let g = &mut *g;
        match g.client.next(&mut g.tape, &g.records) {
            Some(m) => {
                g.records.push(Rec::Read(m.clone()));
                if std::path::Path::new("/verif/scratch/TRACE").exists() {
                    eprintln!("<- {} {} {}", m["seq"], m["command"].as_str().unwrap_or("?"), m["arguments"]);
                }
                if let Ok(mut p) = crate::PARTIAL.lock() {
                    p.0.push(format!("<- {} {} {}", m["seq"], m["command"].as_str().unwrap_or("?"), m["arguments"]));
                    p.1 = g.tape.rec.clone();
                }
                // pipes created from now on belong to the debugger this request may build
                if m["command"] == "launch" || m["command"] == "attach" {
                    g.pipes_seen = seam::PIPES.lock().unwrap().len();
                }
                Ok(m)
            }
            None => Err(anyhow::anyhow!("DAP connection closed")),
        }
    }
    fn write_message(&mut self, message: &Value) -> anyhow::Result<()> {
        let mut g = self.sh.m.lock().unwrap();
        if message["event"] == "output" {
            let n = message["body"]["output"].as_str().map(|s| s.len()).unwrap_or(0) as u64;
            let role = if message["body"]["category"] == "stderr" { Role::Err } else { Role::Out };
            // only the forwarder threads write plain stdout/stderr output events
            if let Some(me) = ME.with(|m| m.get()) {
                if g.threads[me].role == role {
                    g.threads[me].forwarded += n;
                }
            }
        }
        g.records.push(Rec::Write(message.clone()));
        if std::path::Path::new("/verif/scratch/TRACE").exists() {
            eprintln!("-> {}", short(message));
        }
        if let Ok(mut p) = crate::PARTIAL.lock() {
            p.0.push(format!("-> {}", short(message)));
            p.1 = g.tape.rec.clone();
        }
        Ok(())
    }
}

// ------------------------------------------------------------------ simulated client

/// A simulated DAP client: decides the next request from everything seen on the wire so far
/// (and, for the property-specific drivers, from the harness's own view of the debuggee).
pub trait Driver: Send {
    fn has_next(&self) -> bool;
    fn next(&mut self, t: &mut Tape, records: &[Rec]) -> Option<Value>;
    /// violations and statistics of the driver's own oracle
    fn finish(&mut self, _records: &[Rec]) -> (Vec<Violation>, BTreeMap<String, u64>) {
        (vec![], BTreeMap::new())
    }
}

impl Driver for Client {
    fn has_next(&self) -> bool {
        Client::has_next(self)
    }
    fn next(&mut self, t: &mut Tape, records: &[Rec]) -> Option<Value> {
        Client::next(self, t, records)
    }
}

pub struct Client {
    program: String,
    source: String,
    lines: Vec<u64>,
    functions: Vec<String>,
    next_seq: i64,
    sent: usize,
    max: usize,
    done: bool,
    fixed: Option<Vec<Value>>,
    /// restarts / relaunches issued so far (process creation is the expensive part of a run)
    heavy: usize,
    /// one request in `mutate_den` gets its arguments mutated
    mutate_den: usize,
}

#[derive(Default, Debug)]
struct Seen {
    initialized: bool,
    launched: bool,
    configured: bool,
    stopped: bool,
    exited: bool,
    terminated: bool,
    thread_id: i64,
    var_ref: i64,
    frame_id: i64,
}

fn observe(records: &[Rec]) -> Seen {
    let mut s = Seen { thread_id: 1, ..Default::default() };
    for r in records {
        if let Rec::Write(m) = r {
            if m["type"] == "response" && m["success"] == true {
                match m["command"].as_str().unwrap_or("") {
                    "initialize" => s.initialized = true,
                    "launch" | "attach" => {
                        s.launched = true;
                        s.exited = false;
                        s.terminated = false;
                        s.configured = false;
                    }
                    "configurationDone" => s.configured = true,
                    "continue" | "next" | "stepIn" | "stepOut" => s.stopped = false,
                    "scopes" => {
                        if let Some(v) = m["body"]["scopes"].as_array().and_then(|a| a.first()) {
                            s.var_ref = v["variablesReference"].as_i64().unwrap_or(0);
                        }
                    }
                    "stackTrace" => {
                        if let Some(v) = m["body"]["stackFrames"].as_array().and_then(|a| a.first()) {
                            s.frame_id = v["id"].as_i64().unwrap_or(0);
                        }
                    }
                    _ => {}
                }
            }
            if m["type"] == "event" {
                match m["event"].as_str().unwrap_or("") {
                    "stopped" => {
                        s.stopped = true;
                        if let Some(t) = m["body"]["threadId"].as_i64() {
                            s.thread_id = t;
                        }
                    }
                    "exited" => {
                        s.exited = true;
                        s.stopped = false;
                    }
                    "terminated" => s.terminated = true,
                    _ => {}
                }
            }
        }
    }
    s
}

impl Client {
    fn has_next(&self) -> bool {
        !self.done
    }
    fn req(&mut self, command: &str, arguments: Value) -> Value {
        let seq = self.next_seq;
        self.next_seq += 1;
        json!({"seq": seq, "type": "request", "command": command, "arguments": arguments})
    }
    fn mutate(t: &mut Tape, mut args: Value) -> Value {
        match t.choose(9) {
            0 => Value::Null,
            1 => json!({}),
            2 => {
                if let Some(o) = args.as_object_mut() {
                    if let Some(k) = o.keys().next().cloned() {
                        o.insert(k, json!("not-a-number"));
                    }
                }
                args
            }
            3 => {
                if let Some(o) = args.as_object_mut() {
                    if let Some(k) = o.keys().next().cloned() {
                        o.insert(k, json!(9_223_372_036_854_775_807i64));
                    }
                }
                args
            }
            4 => {
                if let Some(o) = args.as_object_mut() {
                    if let Some(k) = o.keys().next().cloned() {
                        o.insert(k, json!(-1));
                    }
                }
                args
            }
            5 => json!([1, 2, 3]),
            6 => {
                if let Some(o) = args.as_object_mut() {
                    for (_, v) in o.iter_mut() {
                        *v = json!(18_446_744_073_709_551_615u64);
                    }
                }
                args
            }
            7 => {
                if let Some(o) = args.as_object_mut() {
                    for (_, v) in o.iter_mut() {
                        *v = json!({"nested": [null, {"x": -0.0}]});
                    }
                }
                args
            }
            _ => json!("\u{0}\u{1F600} string instead of object"),
        }
    }
    fn next(&mut self, t: &mut Tape, records: &[Rec]) -> Option<Value> {
        if self.done {
            return None;
        }
        if let Some(f) = &mut self.fixed {
            if f.is_empty() {
                self.done = true;
                return None;
            }
            let m = f.remove(0);
            if f.is_empty() {
                self.done = true;
            }
            return Some(m);
        }
        let s = observe(records);
        self.sent += 1;
        if self.sent >= self.max {
            self.done = true;
            return Some(self.req("disconnect", json!({"terminateDebuggee": true})));
        }
        let tid = s.thread_id;
        let line = self.lines[t.choose(self.lines.len())];
        let func = self.functions[t.choose(self.functions.len())].clone();
        let src = json!({"path": self.source, "name": "p.rs"});
        // in-phase request with high probability, any request otherwise
        let in_phase = t.chance(6, 7);
        let pick: &str = if in_phase {
            if !s.initialized {
                "initialize"
            } else if !s.launched {
                ["launch", "launch", "setBreakpoints", "setFunctionBreakpoints"][t.choose(4)]
            } else if !s.configured {
                ["configurationDone", "configurationDone", "setBreakpoints", "setFunctionBreakpoints", "setExceptionBreakpoints", "threads"][t.choose(6)]
            } else if s.exited || s.terminated {
                // a client that stays connected after the exit: keeps asking, pauses, relaunches
                ["threads", "restart", "disconnect", "continue", "evaluate", "stackTrace", "threads", "scopes", "disconnect", "next", "modules", "variables", "launch", "launch", "pause", "terminateThreads", "configurationDone", "threads"][t.choose(18)]
            } else {
                ["continue", "continue", "continue", "next", "stepIn", "stepOut", "threads", "stackTrace", "scopes", "variables", "evaluate", "setBreakpoints", "setFunctionBreakpoints", "pause", "restart", "modules", "loadedSources"][t.choose(17)]
            }
        } else {
            ["initialize", "launch", "configurationDone", "continue", "next", "stepIn", "stepOut", "pause", "threads", "stackTrace", "scopes", "variables", "evaluate", "restart", "terminate", "disconnect", "fooBar", "cancel", "setBreakpoints", "readMemory", "disassemble", "source", "stepBack", "goto", "setVariable", "completions", "exceptionInfo", "dataBreakpointInfo", "setDataBreakpoints", "breakpointLocations", "terminateThreads", "restartFrame", "runInTerminal", "reverseContinue", "gotoTargets", "stepInTargets", "setExpression", "writeMemory", "setInstructionBreakpoints"][t.choose(39)]
        };
        let pick = if (pick == "restart" || pick == "launch") && s.launched {
            self.heavy += 1;
            if self.heavy > 2 { "threads" } else { pick }
        } else {
            pick
        };
        let mut args = match pick {
            "initialize" => json!({"adapterID": "bssim", "linesStartAt1": true}),
            "launch" => match t.choose(8) {
                0 => json!({}),
                1 => json!({"program": "/nonexistent/prog"}),
                _ => json!({"program": self.program}),
            },
            "setBreakpoints" => {
                let n = t.choose(4);
                let bps: Vec<Value> = (0..n).map(|_| json!({"line": self.lines[t.choose(self.lines.len())]})).collect();
                json!({"source": src, "breakpoints": bps})
            }
            "setFunctionBreakpoints" => json!({"breakpoints": [{"name": func}]}),
            "setExceptionBreakpoints" => json!({"filters": []}),
            "continue" | "next" | "stepIn" | "stepOut" | "pause" | "stepBack" | "reverseContinue" => json!({"threadId": tid}),
            "stackTrace" => json!({"threadId": tid}),
            "scopes" => json!({"frameId": s.frame_id}),
            "variables" => json!({"variablesReference": s.var_ref}),
            "evaluate" => {
                let e = ["acc", "r", "TICK", "1+", "*0", "v0"][t.choose(6)];
                json!({"expression": e, "frameId": s.frame_id})
            }
            "terminate" | "restart" | "threads" | "modules" | "loadedSources" | "configurationDone" => json!({}),
            "disconnect" => json!({"terminateDebuggee": true}),
            "cancel" => json!({"requestId": 1}),
            "readMemory" => json!({"memoryReference": "0x555555554000", "count": 16}),
            "writeMemory" => json!({"memoryReference": "0x10", "data": "AAAA"}),
            "disassemble" => json!({"memoryReference": "0x555555555000", "instructionCount": 4}),
            "source" => json!({"sourceReference": 1}),
            "goto" => json!({"threadId": tid, "targetId": 1}),
            "gotoTargets" => json!({"source": src, "line": line}),
            "setVariable" => json!({"variablesReference": s.var_ref, "name": "acc", "value": "1"}),
            "setExpression" => json!({"expression": "acc", "value": "1", "frameId": s.frame_id}),
            "completions" => json!({"text": "br", "column": 2}),
            "exceptionInfo" => json!({"threadId": tid}),
            "dataBreakpointInfo" => json!({"name": "acc", "variablesReference": s.var_ref}),
            "setDataBreakpoints" => json!({"breakpoints": []}),
            "breakpointLocations" => json!({"source": src, "line": line}),
            "terminateThreads" => json!({"threadIds": [tid]}),
            "restartFrame" => json!({"frameId": s.frame_id}),
            "runInTerminal" => json!({"args": ["x"], "cwd": "/"}),
            "stepInTargets" => json!({"frameId": s.frame_id}),
            "setInstructionBreakpoints" => json!({"breakpoints": [{"instructionReference": "0x555555555000"}]}),
            _ => json!({}),
        };
        if t.chance(1, self.mutate_den.max(1)) {
            args = Self::mutate(t, args);
        }
        if pick == "disconnect" || pick == "terminate" {
            self.done = true;
        }
        // occasionally a well-framed message that is not a request
        if t.chance(1, 40) {
            let seq = self.next_seq;
            self.next_seq += 1;
            return Some(json!({"seq": seq, "type": "event", "command": "noise", "arguments": {}}));
        }
        Some(self.req(pick, args))
    }
}

// ------------------------------------------------------------------ wire oracle

pub fn short(m: &Value) -> String {
    if m["type"] == "event" {
        format!("{}:ev({})", m["seq"], m["event"].as_str().unwrap_or("?"))
    } else if m["type"] == "response" {
        format!("{}:rsp({} {} rq{}{})", m["seq"], m["command"].as_str().unwrap_or("?"), if m["success"] == true { "ok" } else { "ERR" }, m["request_seq"], if m["success"] == true { String::new() } else { format!(" {:?}", m["message"].as_str().unwrap_or("").chars().take(80).collect::<String>()) })
    } else {
        format!("?{}", m)
    }
}

pub fn check_wire(records: &[Rec], run_result: &Result<(), String>, client_closed_without_disconnect: bool, prop: &str) -> Vec<Violation> {
    let mut v: Vec<Violation> = vec![];
    let mut push = |inv: &str, d: String, step: usize| v.push(Violation { property: prop.into(), invariant: inv.into(), detail: d, step });
    // A. sequence numbers in wire order
    let mut expect = 1i64;
    for (i, r) in records.iter().enumerate() {
        if let Rec::Write(m) = r {
            let s = m["seq"].as_i64().unwrap_or(-1);
            if s != expect {
                let ctx: Vec<String> = records[i.saturating_sub(3)..(i + 3).min(records.len())].iter().filter_map(|r| if let Rec::Write(m) = r { Some(short(m)) } else { None }).collect();
                let out = m["event"] == "output" || ctx.iter().any(|c| c.contains("ev(output)"));
                push(if out { "seq_order_output_race" } else { "seq_order" }, format!("message #{expect} on the wire carries seq {s}: {}", ctx.join(" ")), i);
                break;
            }
            expect += 1;
        }
    }
    // B. exactly one response per request, before the next read
    let mut tainted: BTreeSet<usize> = BTreeSet::new();
    let reads: Vec<usize> = records.iter().enumerate().filter(|(_, r)| matches!(r, Rec::Read(_))).map(|(i, _)| i).collect();
    for (k, &ri) in reads.iter().enumerate() {
        let Rec::Read(req) = &records[ri] else { continue };
        if req["type"] != "request" {
            continue;
        }
        let end = reads.get(k + 1).copied().unwrap_or(records.len());
        let rs: Vec<&Value> = records[ri + 1..end].iter().filter_map(|r| if let Rec::Write(m) = r { Some(m) } else { None }).filter(|m| m["type"] == "response" && m["request_seq"] == req["seq"]).collect();
        let cmd = req["command"].as_str().unwrap_or("");
        if rs.len() != 1 {
            tainted.insert(ri);
            let inv = if rs.len() == 2 && rs[0]["success"] == true && rs[1]["success"] == false { "two_responses_success_then_error" } else if rs.is_empty() { "no_response" } else { "response_count" };
            push(inv, format!("request seq {} `{cmd}` got {} responses: {:?}", req["seq"], rs.len(), rs.iter().map(|m| short(m)).collect::<Vec<_>>()), ri);
        } else if rs[0]["command"] != req["command"] {
            push("response_command", format!("request `{cmd}` answered with command {}", rs[0]["command"]), ri);
        }
        // a response addressed to another request inside this window
        for r in &records[ri + 1..end] {
            if let Rec::Write(m) = r {
                if m["type"] == "response" && m["request_seq"] != req["seq"] {
                    push("stray_response", format!("while handling seq {} a response for request_seq {} was sent", req["seq"], m["request_seq"]), ri);
                }
            }
        }
    }
    // C/D. event discipline
    let mut terminated = false;
    let mut exited = false;
    let mut stopped_pending = false; // a stopped event not yet followed by a resume-type request
    let mut threads_started: BTreeSet<i64> = BTreeSet::new();
    let resume = ["continue", "next", "stepIn", "stepOut", "restart", "configurationDone", "goto", "pause", "launch", "attach", "stepBack", "reverseContinue", "restartFrame", "terminate", "disconnect", "terminateThreads"];
    let mut window_req: Option<(String, bool)> = None; // (command, success response seen)
    let mut window_stop_events = 0;
    let mut window_continued = 0;
    let mut window_start = 0usize;
    let mut close_window = |window_req: &Option<(String, bool)>, stops: usize, continued: usize, at: usize, v: &mut Vec<Violation>| {
        if let Some((cmd, ok)) = window_req {
            if *ok && !tainted.contains(&at) && ["continue", "next", "stepIn", "stepOut"].contains(&cmd.as_str()) {
                if stops != 1 {
                    v.push(Violation { property: prop.into(), invariant: if stops == 0 { "missing_stop_event".into() } else { "duplicate_stop_event".into() }, detail: format!("successful `{cmd}` was followed by {stops} stopped/exited/terminated announcements before the next request"), step: at });
                }
                if cmd == "continue" && continued != 1 {
                    v.push(Violation { property: prop.into(), invariant: "continued_count".into(), detail: format!("successful `continue` announced by {continued} `continued` events"), step: at });
                }
            }
        }
    };
    let mut extra: Vec<Violation> = vec![];
    for (i, r) in records.iter().enumerate() {
        match r {
            Rec::Read(req) => {
                close_window(&window_req, window_stop_events, window_continued, window_start, &mut extra);
                window_req = None;
                window_stop_events = 0;
                window_continued = 0;
                window_start = i;
                if req["type"] != "request" {
                    continue;
                }
                let cmd = req["command"].as_str().unwrap_or("").to_string();
                if resume.contains(&cmd.as_str()) {
                    stopped_pending = false;
                }
                // a new epoch: a (re)launched debuggee, or the client starting the session over
                if cmd == "launch" || cmd == "attach" || cmd == "restart" || cmd == "initialize" {
                    terminated = false;
                    exited = false;
                }
                window_req = Some((cmd, false));
            }
            Rec::Write(m) => {
                if m["type"] == "response" {
                    if let Some((cmd, ok)) = &mut window_req {
                        if m["command"] == cmd.as_str() && m["success"] == true {
                            *ok = true;
                        }
                    }
                    continue;
                }
                let ev = m["event"].as_str().unwrap_or("");
                if terminated {
                    let inv = if ev == "output" { "output_after_terminated" } else { "event_after_terminated" };
                    extra.push(Violation { property: prop.into(), invariant: inv.into(), detail: format!("{} sent after `terminated`", short(m)), step: i });
                    continue;
                }
                match ev {
                    "stopped" => {
                        let can_stop = ["configurationDone", "continue", "next", "stepIn", "stepOut", "pause", "restart", "goto", "restartFrame", "stepBack", "reverseContinue", "attach", "launch"];
                        let w = window_req.as_ref().map(|w| w.0.clone()).unwrap_or_default();
                        if !can_stop.contains(&w.as_str()) || (w == "launch" && m["body"]["reason"] != "entry") {
                            extra.push(Violation { property: prop.into(), invariant: "stopped_without_resume".into(), detail: format!("{}: `stopped` (reason {}) announced while handling `{w}`, which does not run the debuggee", short(m), m["body"]["reason"]), step: i });
                        }
                        if stopped_pending {
                            extra.push(Violation { property: prop.into(), invariant: "duplicate_stopped".into(), detail: format!("{}: second `stopped` without a resume in between", short(m)), step: i });
                        }
                        stopped_pending = true;
                        window_stop_events += 1;
                        // (a `stopped` naming a thread that was not announced yet is legal DAP:
                        // clients fetch `threads` on every stop; not judged)
                        if window_continued == 0 && window_req.as_ref().map(|w| w.0 == "continue" && w.1).unwrap_or(false) {
                            extra.push(Violation { property: prop.into(), invariant: "stopped_before_continued".into(), detail: "stopped announced before continued".into(), step: i });
                        }
                    }
                    "continued" => window_continued += 1,
                    "exited" => {
                        if exited {
                            extra.push(Violation { property: prop.into(), invariant: "duplicate_exited".into(), detail: format!("{}: second `exited`", short(m)), step: i });
                        }
                        exited = true;
                        window_stop_events += 1;
                    }
                    "terminated" => {
                        terminated = true;
                        if !exited {
                            window_stop_events += 1;
                        }
                    }
                    "thread" => {
                        let t = m["body"]["threadId"].as_i64().unwrap_or(-1);
                        match m["body"]["reason"].as_str().unwrap_or("") {
                            "started" => {
                                if !threads_started.insert(t) {
                                    extra.push(Violation { property: prop.into(), invariant: "duplicate_thread_started".into(), detail: format!("{}: thread {t} started twice", short(m)), step: i });
                                }
                            }
                            "exited" => {
                                if !threads_started.remove(&t) {
                                    extra.push(Violation { property: prop.into(), invariant: "thread_exited_without_started".into(), detail: format!("{}: thread {t} exited but was never started", short(m)), step: i });
                                }
                            }
                            _ => {}
                        }
                    }
                    _ => {}
                }
            }
        }
    }
    close_window(&window_req, window_stop_events, window_continued, window_start, &mut extra);
    v.extend(extra);
    // E. the session survives every request
    if let Err(e) = run_result {
        if !(client_closed_without_disconnect && e.contains("connection closed")) {
            v.push(Violation { property: prop.into(), invariant: "session_died".into(), detail: format!("DebugSession::run returned an error: {e}"), step: records.len() });
        }
    }
    v
}

// ------------------------------------------------------------------ worker entry

pub fn run(spec: &WorkerSpec) -> WorkerResult {
    let tape = match &spec.tape {
        Some(t) => Tape::replay(t.clone()),
        None => Tape::record(spec.seed),
    };
    let bin = std::path::Path::new(&spec.bin);
    let lt = match crate::linetab::load(bin) {
        Ok(t) => t,
        Err(e) => return WorkerResult { verdict: "harness_error".into(), detail: e, ..Default::default() },
    };
    let file_id = lt.file_id(&spec.src_file).unwrap_or(0);
    let lines: Vec<u64> = lt.stmt_lines(file_id).into_iter().collect();
    let source = bin.with_extension("rs").to_string_lossy().to_string();
    let max = spec.params.get("max_requests").and_then(|v| v.as_u64()).unwrap_or(25) as usize;
    let fixed: Option<Vec<Value>> = spec.params.get("script").and_then(|v| v.as_array().cloned());
    let client: Box<dyn Driver> = if spec.property == "C15" {
        match crate::dap15::MemDriver::new(spec, max) {
            Ok(d) => Box::new(d),
            Err(e) => return WorkerResult { verdict: "harness_error".into(), detail: e, ..Default::default() },
        }
    } else if spec.property == "C13" {
        match crate::dap13::BpDriver::new(spec, max) {
            Ok(d) => Box::new(d),
            Err(e) => return WorkerResult { verdict: "harness_error".into(), detail: e, ..Default::default() },
        }
    } else {
        Box::new(Client { program: spec.bin.clone(), source, lines: if lines.is_empty() { vec![1] } else { lines }, functions: spec.program.functions.clone(), next_seq: 1, sent: 0, max, done: false, fixed, heavy: 0, mutate_den: if spec.property == "C08" { 2 } else { 10 } })
    };
    let policy_session_first = spec.params.get("session_first").and_then(|v| v.as_bool()).unwrap_or(false);
    let sh = Arc::new(Shared {
        m: Mutex::new(Ctl {
            threads: vec![Th { role: Role::Session, generation: 0, registered: false, parked: None, alive: true, pulled: 0, forwarded: 0, fd: -1 }],
            granted: None,
            running: None,
            tape,
            schedule: vec![],
            generation: 0,
            pipes_seen: 0,
            records: vec![],
            client,
            stats: BTreeMap::new(),
            decisions: 0,
            session_finished: false,
            policy_session_first,
        }),
        cv: Condvar::new(),
    });
    let sh2 = sh.clone();
    bugstalker::verif::install_point(Box::new(move |pt| point(&sh2, pt)));
    seam::start_recording();
    bugstalker::debugger::rust::Environment::init(None);
    let io: Arc<Mutex<dyn DapTransport>> = Arc::new(Mutex::new(SimTransport { sh: sh.clone() }));
    let h = std::thread::Builder::new().name("session".into()).spawn(move || DebugSession::new(io).run(vec![]).map_err(|e| format!("{e:#}"))).unwrap();
    let t_start = std::time::Instant::now();
    let run_result = match h.join() {
        Ok(r) => r,
        Err(_) => Err("session thread panicked".into()),
    };
    if std::path::Path::new("/verif/scratch/DEBUG").exists() {
        eprintln!("dap timing: session joined after {:?}", t_start.elapsed());
    }
    // the session is gone: let the forwarders that still have data run until nothing is enabled
    {
        let mut g = sh.m.lock().unwrap();
        g.threads[0].alive = false;
        g.threads[0].parked = None;
        g.running = None;
        g.session_finished = true;
        let t0 = std::time::Instant::now();
        loop {
            if g.decide() {
                sh.cv.notify_all();
            }
            let idle = g.running.is_none() && g.granted.is_none() && g.all_parked() && !(0..g.threads.len()).any(|i| g.enabled(i));
            if idle || t0.elapsed().as_secs() > 10 {
                break;
            }
            let (gg, _) = sh.cv.wait_timeout(g, std::time::Duration::from_millis(20)).unwrap();
            g = gg;
        }
    }
    if std::path::Path::new("/verif/scratch/DEBUG").exists() {
        eprintln!("dap timing: total {:?}", t_start.elapsed());
    }
    let mut g = sh.m.lock().unwrap();
    let closed_without_disconnect = !g.records.iter().any(|r| matches!(r, Rec::Read(m) if m["command"] == "disconnect" || m["command"] == "terminate"));
    let mut violations = if spec.property == "C08" {
        match &run_result {
            Err(e) if !(closed_without_disconnect && e.contains("connection closed")) => vec![Violation { property: "C08".into(), invariant: "dap_session_died".into(), detail: format!("DebugSession::run returned an error: {e}"), step: g.records.len() }],
            _ => vec![],
        }
    } else if spec.property == "C13" || spec.property == "C15" { vec![] } else { check_wire(&g.records, &run_result, closed_without_disconnect, &spec.property) };
    let recs = g.records.clone();
    let (dv, dstats) = g.client.finish(&recs);
    violations.extend(dv);
    for (k, v) in dstats {
        *g.stats.entry(k).or_default() += v;
    }
    if spec.property == "C13" || spec.property == "C15" {
        if let Err(e) = &run_result {
            if !e.contains("connection closed") {
                violations.push(Violation { property: "C12".into(), invariant: "session_died".into(), detail: e.clone(), step: recs.len() });
            }
        }
    }
    let mut log: Vec<String> = vec![];
    for r in &g.records {
        match r {
            Rec::Read(m) => log.push(format!("<- {} {} {}", m["seq"], m["command"].as_str().unwrap_or("?"), m["arguments"])),
            Rec::Write(m) => log.push(format!("-> {}", short(m))),
        }
    }
    log.push(format!("schedule: {}", g.schedule.join(" ")));
    log.push(format!("run() = {run_result:?}"));
    for v in &violations {
        log.push(format!("  !! {}:{} {}", v.property, v.invariant, v.detail));
    }
    let mut stats = std::mem::take(&mut g.stats);
    add(&mut stats, "c12.requests", g.records.iter().filter(|r| matches!(r, Rec::Read(_))).count() as u64);
    add(&mut stats, "c12.messages", g.records.iter().filter(|r| matches!(r, Rec::Write(_))).count() as u64);
    add(&mut stats, "c12.output_events", g.records.iter().filter(|r| matches!(r, Rec::Write(m) if m["event"] == "output")).count() as u64);
    add(&mut stats, "c12.stopped_events", g.records.iter().filter(|r| matches!(r, Rec::Write(m) if m["event"] == "stopped")).count() as u64);
    add(&mut stats, "c12.exited_events", g.records.iter().filter(|r| matches!(r, Rec::Write(m) if m["event"] == "exited")).count() as u64);
    add(&mut stats, "c12.error_responses", g.records.iter().filter(|r| matches!(r, Rec::Write(m) if m["type"] == "response" && m["success"] == false)).count() as u64);
    add(&mut stats, "c12.scheduling_decisions", g.decisions);
    let ops = g.records.iter().filter(|r| matches!(r, Rec::Read(_))).count();
    let verdict = if violations.is_empty() { "ok" } else { "violation" };
    WorkerResult { verdict: verdict.into(), violations, detail: String::new(), log, tape: g.tape.rec.clone(), stats, ops, seam_calls: seam::N_PTRACE.load(std::sync::atomic::Ordering::Relaxed) + seam::N_WAIT.load(std::sync::atomic::Ordering::Relaxed) }
}

//! Layer B: a multi-threaded debuggee whose every thread is gated by the simulator, debugged by
//! the real debugger.  The world scheduler lives inside the interposed `waitpid`/`ptrace`: at
//! every decision point the run's tape chooses which gated thread advances, which pending wait
//! event is delivered, whether a signal is sent, and whether a sibling runs while the debugger is
//! in the middle of a group stop.  Oracles: all-stop at every reported stop (C09), exactly one
//! report per breakpoint arrival and non-idempotent site counters (C09), sent = handled =
//! reported signals (C10), per-thread debug-register image (C14).

use crate::layer_a::{DR_OFFSET, Ev, Events};
use crate::mtprog::*;
use crate::ns;
use crate::rng::Tape;
use crate::seam::{self, World, raw};
use crate::worker::{Violation, WorkerResult, WorkerSpec, add, bump};
use bugstalker::debugger::address::RelocatedAddress;
use bugstalker::debugger::process::Child;
use bugstalker::debugger::register::debug::{BreakCondition, BreakSize};
use bugstalker::debugger::{Debugger, DebuggerBuilder, StopReason};
use nix::unistd::Pid;
use std::collections::{BTreeMap, BTreeSet};
use std::io::Read;
use std::path::Path;

struct Ctl(*mut u32);
unsafe impl Send for Ctl {}
impl Ctl {
    fn get(&self, i: usize) -> u32 {
        unsafe { std::ptr::read_volatile(self.0.add(i)) }
    }
    fn set(&self, i: usize, v: u32) {
        unsafe { std::ptr::write_volatile(self.0.add(i), v) }
    }
    fn wake(&self, i: usize) {
        unsafe { libc::syscall(libc::SYS_futex, self.0.add(i), 1 /*FUTEX_WAKE (shared)*/, i32::MAX, 0usize, 0usize, 0u32) };
    }
}

#[derive(Clone, Debug)]
struct ThModel {
    script: Vec<(u32, u32)>,
    pc: usize,
    tid: i32,
    spawned: bool,
    told_exit: bool,
}

#[derive(Clone, Debug, PartialEq)]
struct SentSignal {
    idx: usize,
    sig: i32,
    reported: u32,
    how: &'static str,
}

pub struct MtWorld {
    ctl: Ctl,
    pub pid: i32,
    pub tape: Tape,
    threads: Vec<ThModel>,
    nspawned: usize,
    resumed: BTreeSet<i32>,
    intr_pending: BTreeSet<i32>,
    sig_in_flight: BTreeSet<i32>,
    dead: BTreeSet<i32>,
    pub log: Vec<String>,
    pub stats: BTreeMap<String, u64>,
    pub violations: Vec<Violation>,
    pub site_addr: [u64; NSITES],
    pub armed: [bool; NSITES],
    /// arrivals not yet reported: (thread idx, site)
    pub arrivals: Vec<(usize, usize)>,
    /// arrivals that a signal stop at the site pc has accounted for (a later report is accepted, not demanded)
    pub soft_arrivals: Vec<(usize, usize)>,
    pub site_execs: [u64; NSITES],
    sent: Vec<SentSignal>,
    pub deadlock: bool,
    pub active: bool,
    /// the debugger has let the process go (PTRACE_DETACH seen): the harness schedules alone
    pub detached: bool,
    pub detach_report: Option<Vec<String>>,
    bin: String,
    sig_budget: usize,
    sig_kinds: Vec<i32>,
    p_race: usize,
    p_deliver: usize,
    p_signal: usize,
    p_detach: usize,
    watch_heavy: bool,
    /// threads (idx) that were in focus when a breakpoint was created after start
    bp_creators: Vec<usize>,
    last_stop_worker: bool,
    in_group_stop_calls: u64,
    /// signal-delivery-stops the debugger has been told about and not yet answered: (tid, sig)
    observed: Vec<(i32, i32)>,
    /// signals whose delivery-stop was answered without injection (tid, sig)
    suppressed: Vec<(i32, i32)>,
    late_injections: Vec<(i32, i32)>,
    last_wait_pid: i32,
    pub injections_in_op: u32,
    /// signal-delivery-stops the debugger got from its own waitpid(-1) during the current
    /// operation (as opposed to signals it reports out of its injection queue)
    pub fresh_delivery_in_op: Vec<(i32, i32)>,
    /// (thread idx, sig) whose delivery-stop was consumed by a wait for one specific task (group stop)
    seen_in_group_stop: Vec<(usize, i32)>,
    /// (thread idx, sig) whose accounting is tainted by a discarded delivery-stop
    tainted: Vec<(usize, i32)>,
    /// threads whose signal queue inside the debugger holds a stale entry after a discarded
    /// delivery-stop (known finding KF-C10-1): their later reports are not judged
    tainted_threads: BTreeSet<usize>,
    step: usize,
    harness_error: Option<String>,
}

fn task_state(pid: i32, tid: i32) -> char {
    ns::task_state(pid, tid)
}

impl MtWorld {
    fn logf(&mut self, s: String) {
        if std::path::Path::new("/verif/scratch/TRACE").exists() {
            let ms = std::time::SystemTime::now().duration_since(std::time::UNIX_EPOCH).map(|d| d.as_millis() % 100000).unwrap_or(0);
            eprintln!("[{ms:5}] {s}");
        }
        if let Ok(mut p) = crate::PARTIAL.lock() {
            p.0.push(s.clone());
            p.1 = self.tape.rec.clone();
        }
        self.log.push(s);
    }
    fn violate(&mut self, property: &str, invariant: &str, detail: String) {
        let v = Violation { property: property.into(), invariant: invariant.into(), detail, step: self.step };
        self.logf(format!("  !! {}:{} {}", v.property, v.invariant, v.detail));
        self.violations.push(v);
    }
    fn registered(&self) -> bool {
        self.pid > 0 && self.ctl.get(W_TID) != 0
    }
    fn idx_of(&self, tid: i32) -> Option<usize> {
        (0..self.nspawned.min(MAX_THREADS)).find(|&i| self.ctl.get(W_TID + i) as i32 == tid)
    }
    fn parked(&self, i: usize) -> bool {
        self.ctl.get(W_PHASE + i) == self.ctl.get(W_TICKET + i).wrapping_add(1)
    }
    fn name(&self, tid: i32) -> String {
        match self.idx_of(tid) {
            Some(i) => format!("T{i}"),
            None => format!("tid{tid}"),
        }
    }

    /// The task list of the debuggee.  Reading /proc/<pid>/task while a task exits can skip an
    /// entry, so the listing is cross-checked against what the model knows (every registered
    /// thread that has not been reaped must be listed) and read until two passes agree.
    fn tasks_checked(&self) -> Vec<i32> {
        let mut last = ns::tasks(self.pid);
        for _ in 0..200 {
            let again = ns::tasks(self.pid);
            let complete = (0..self.nspawned.min(MAX_THREADS)).all(|i| {
                let t = self.ctl.get(W_TID + i) as i32;
                t == 0 || self.dead.contains(&t) || again.contains(&t)
            });
            if again == last && complete {
                return again;
            }
            last = again;
            std::thread::yield_now();
        }
        last
    }

    /// Wait until every task of the debuggee is in a ptrace stop, dead, or asleep at its gate
    /// with nothing in flight.  No decision is taken in here.
    fn quiesce(&mut self) -> bool {
        let t0 = std::time::Instant::now();
        let mut spins = 0u64;
        loop {
            let tasks = self.tasks_checked();
            let mut ok = true;
            for &t in &tasks {
                let st = task_state(self.pid, t);
                if matches!(st, 't' | 'Z' | 'X') {
                    continue;
                }
                let q = match self.idx_of(t) {
                    Some(i) => matches!(st, 'S') && self.parked(i) && !self.intr_pending.contains(&t) && !self.sig_in_flight.contains(&t),
                    None => false,
                };
                if !q {
                    ok = false;
                    break;
                }
            }
            // every thread the model has spawned must have registered (or be stopped new-born)
            if ok {
                return true;
            }
            spins += 1;
            if spins % 64 == 0 {
                std::thread::sleep(std::time::Duration::from_micros(200));
            } else {
                std::thread::yield_now();
            }
            if t0.elapsed().as_secs() >= 8 {
                let desc: Vec<String> = tasks.iter().map(|&t| format!("{}:{}{}", self.name(t), task_state(self.pid, t), self.idx_of(t).map(|i| if self.parked(i) { "p" } else { "" }).unwrap_or("?"))).collect();
                self.harness_error = Some(format!("quiesce timeout: {desc:?} intr {:?} sig {:?}", self.intr_pending, self.sig_in_flight));
                return false;
            }
        }
    }

    fn pending_event(&self, tid: i32) -> bool {
        let mut info: libc::siginfo_t = unsafe { std::mem::zeroed() };
        let r = unsafe { libc::waitid(libc::P_PID, tid as u32, &mut info, libc::WEXITED | libc::WSTOPPED | libc::WNOHANG | libc::WNOWAIT | libc::__WALL) };
        r == 0 && unsafe { info.si_pid() } != 0
    }

    fn runnable(&self) -> Vec<usize> {
        let mut v = vec![];
        for i in 0..self.nspawned {
            let th = &self.threads[i];
            if self.ctl.get(W_TID + i) == 0 {
                continue;
            }
            let tid = self.ctl.get(W_TID + i) as i32;
            if (!self.detached && !self.resumed.contains(&tid)) || self.dead.contains(&tid) || th.told_exit {
                continue;
            }
            if task_state(self.pid, tid) != 'S' || !self.parked(i) {
                continue;
            }
            if th.pc >= th.script.len() {
                continue;
            }
            let (cmd, _) = th.script[th.pc];
            let enabled = match cmd {
                CMD_JOIN | CMD_FINISH => {
                    // every other thread is fully gone (a zombie has already cleared its tid word)
                    (1..self.nspawned).all(|j| {
                        let t = self.ctl.get(W_TID + j) as i32;
                        t != 0 && matches!(task_state(self.pid, t), 'Z' | 'X')
                    })
                }
                CMD_SPAWN => self.nspawned < self.threads.len(),
                _ => true,
            };
            if enabled {
                v.push(i);
            }
        }
        v
    }

    fn advance(&mut self, i: usize, why: &str) {
        let (cmd, arg) = self.threads[i].script[self.threads[i].pc];
        self.threads[i].pc += 1;
        let desc = match cmd {
            CMD_SITE => {
                let k = arg as usize;
                self.site_execs[k] += 1;
                if self.armed[k] {
                    self.arrivals.push((i, k));
                    bump(&mut self.stats, "c09.arrivals");
                }
                format!("site{k}")
            }
            CMD_SPAWN => {
                self.threads[self.nspawned].spawned = true;
                self.nspawned += 1;
                bump(&mut self.stats, "c09.spawns");
                format!("spawn T{}", self.nspawned - 1)
            }
            CMD_EXIT => {
                self.threads[i].told_exit = true;
                bump(&mut self.stats, "c09.thread_exits");
                "exit".into()
            }
            CMD_JOIN => "join".into(),
            CMD_FINISH => {
                self.threads[i].told_exit = true;
                "finish".into()
            }
            CMD_RAISE => {
                self.sent.push(SentSignal { idx: i, sig: arg as i32, reported: 0, how: "raise" });
                bump(&mut self.stats, "c10.self_raised");
                format!("raise {arg}")
            }
            CMD_TOUCH => format!("touch {arg}"),
            _ => "nop".into(),
        };
        self.logf(format!("    sched{why}: T{i} {desc}"));
        self.ctl.set(W_CMD + i, cmd);
        self.ctl.set(W_ARG + i, arg);
        let t = self.ctl.get(W_TICKET + i);
        self.ctl.set(W_TICKET + i, t.wrapping_add(1));
        self.ctl.wake(W_TICKET + i);
        bump(&mut self.stats, "c09.advances");
    }

    /// Send a signal from outside to a live, registered thread (constraints of DESIGN §2.6).
    fn maybe_signal(&mut self) -> bool {
        if self.sig_budget == 0 || self.sig_kinds.is_empty() {
            return false;
        }
        let cands: Vec<usize> = (0..self.nspawned)
            .filter(|&i| {
                let tid = self.ctl.get(W_TID + i) as i32;
                tid != 0 && !self.threads[i].told_exit && !self.dead.contains(&tid) && matches!(task_state(self.pid, tid), 'S' | 't') && (task_state(self.pid, tid) == 't' || self.parked(i))
            })
            .collect();
        if cands.is_empty() {
            return false;
        }
        let i = cands[self.tape.choose(cands.len())];
        let s = self.sig_kinds[self.tape.choose(self.sig_kinds.len())];
        let tid = self.ctl.get(W_TID + i) as i32;
        if ns::sig_pending(self.pid, tid, s) {
            return false;
        }
        // the same signal observed by the debugger but not yet re-injected would be
        // indistinguishable from this one in the reports: keep (thread, signal) unique in flight
        if self.sent.iter().any(|x| x.idx == i && x.sig == s && x.reported == 0 && !QUIET.contains(&s)) {
            return false;
        }
        let running = task_state(self.pid, tid) == 'S';
        if raw::tgkill(self.pid, tid, s) != 0 {
            return false;
        }
        self.sig_budget -= 1;
        if running {
            self.sig_in_flight.insert(tid);
        }
        self.sent.push(SentSignal { idx: i, sig: s, reported: 0, how: if running { "external_running" } else { "external_stopped" } });
        bump(&mut self.stats, if running { "c10.sent_to_running_thread" } else { "c10.sent_to_stopped_thread" });
        self.logf(format!("    sched: signal {s} -> T{i} ({})", if running { "running" } else { "stopped" }));
        true
    }

    fn escape_deadlock(&mut self, what: &str) {
        self.deadlock = true;
        let snap: Vec<String> = ns::tasks(self.pid).iter().map(|&t| format!("{}:{}", self.name(t), task_state(self.pid, t))).collect();
        self.violate("C09", "deadlock", format!("{what}: the debugger waits but no event can arrive (tasks {snap:?}, resumed {:?})", self.resumed));
        unsafe { libc::kill(self.pid, libc::SIGKILL) };
    }
}

impl World for MtWorld {
    fn before_wait(&mut self, pid: i32, options: i32) -> Option<i32> {
        self.last_wait_pid = pid;
        if !self.active || self.deadlock || self.pid <= 0 {
            return None;
        }
        if !self.registered() {
            // single-threaded start-up (ld.so, libc init): either the thread produces an event or
            // it reaches the interpreter and registers; never block in the kernel meanwhile,
            // because once it is parked at its first gate only the scheduler can move it
            let t0 = std::time::Instant::now();
            loop {
                if self.registered() {
                    break;
                }
                let tasks = ns::tasks(self.pid);
                if tasks.is_empty() || tasks.iter().any(|&t| self.pending_event(t)) || self.pending_event(self.pid) {
                    return None;
                }
                std::thread::yield_now();
                if t0.elapsed().as_secs() >= 8 {
                    self.harness_error = Some("start-up: neither an event nor registration within 8 s".into());
                    return None;
                }
            }
        }
        if options & libc::WNOHANG != 0 {
            self.quiesce();
            return None;
        }
        let mut guard = 0;
        loop {
            guard += 1;
            if guard > 10_000 {
                self.harness_error = Some("scheduler loop did not terminate".into());
                return None;
            }
            if !self.quiesce() {
                return None;
            }
            if self.p_signal > 0 && self.tape.chance(self.p_signal, 100) && self.maybe_signal() {
                continue;
            }
            // observe twice: the picture (tasks, their pending events, who may be released) must
            // be the same on two consecutive looks, otherwise something was still in motion
            let (tasks, cand, runnable) = {
                let mut prev: Option<(Vec<i32>, Vec<i32>, Vec<usize>)> = None;
                let mut tries = 0;
                loop {
                    let tasks = self.tasks_checked();
                    let cand: Vec<i32> = tasks.iter().copied().filter(|&t| (pid == -1 || pid == t) && self.pending_event(t)).collect();
                    let runnable = self.runnable();
                    let now = (tasks, cand, runnable);
                    tries += 1;
                    if prev.as_ref() == Some(&now) || tries > 50 {
                        break now;
                    }
                    prev = Some(now);
                    std::thread::yield_now();
                    if !self.quiesce() {
                        return None;
                    }
                }
            };
            if !cand.is_empty() && (runnable.is_empty() || self.tape.chance(self.p_deliver, 100)) {
                let t = if cand.len() == 1 { cand[0] } else { cand[self.tape.choose(cand.len())] };
                if cand.len() > 1 {
                    bump(&mut self.stats, "c09.deliver_choice_among_several");
                }
                self.logf(format!("    sched: deliver {} (of {})", self.name(t), cand.len()));
                return Some(t);
            }
            if !runnable.is_empty() {
                let i = if runnable.len() == 1 { runnable[0] } else { runnable[self.tape.choose(runnable.len())] };
                self.advance(i, "");
                continue;
            }
            // nothing pending for the awaited target and nothing can be advanced
            if tasks.is_empty() || tasks.iter().all(|&t| matches!(task_state(self.pid, t), 'Z' | 'X')) {
                return None; // the process is gone: the real wait reports it
            }
            if pid > 0 && task_state(self.pid, pid) == 'X' {
                return None; // the awaited task no longer exists: the real wait fails at once (ECHILD)
            }
            // every live task is either ptrace-stopped without a pending event or parked with
            // nothing it may do: no event can ever arrive
            self.escape_deadlock(if pid == -1 { "wait(-1)" } else { "wait(tid)" });
            return None;
        }
    }

    fn after_wait(&mut self, ret: i32, status: i32) {
        if ret <= 0 || self.pid <= 0 {
            return;
        }
        self.intr_pending.remove(&ret);
        self.sig_in_flight.remove(&ret);
        if libc::WIFSTOPPED(status) {
            self.resumed.remove(&ret);
            let sig = libc::WSTOPSIG(status);
            let event = (status >> 16) & 0xffff;
            if event == 0 && sig != libc::SIGTRAP && self.registered() {
                // with PTRACE_SEIZE group stops carry PTRACE_EVENT_STOP: a plain stop is a
                // signal-delivery-stop
                self.observed.push((ret, sig));
                let n = self.name(ret);
                let gs = self.last_wait_pid > 0;
                if !gs {
                    self.fresh_delivery_in_op.push((ret, sig));
                }
                if let (Some(i), true) = (self.idx_of(ret), gs) {
                    self.seen_in_group_stop.push((i, sig));
                    bump(&mut self.stats, "c10.delivery_stop_seen_during_group_stop");
                }
                self.logf(format!("    kernel: signal-delivery-stop of {n} with {sig}{}", if gs { " (consumed by a wait for that task: group stop)" } else { "" }));
                bump(&mut self.stats, "c10.signal_delivery_stops");
            }
        } else {
            self.resumed.remove(&ret);
            self.dead.insert(ret);
        }
    }

    fn before_ptrace(&mut self, req: u32, pid: i32, _addr: u64, _data: u64) {
        if req == seam::PTRACE_DETACH && self.detach_report.is_none() && self.pid > 0 {
            // the instant the process is let go: its code must be the file's code, no thread may
            // carry an enabled debug register
            let mut rep = vec![];
            for m in ns::maps(self.pid).iter().filter(|m| m.perms.contains('x') && m.path == self.bin) {
                let Ok(file) = std::fs::read(&m.path) else { continue };
                let len = (m.end - m.start) as usize;
                let Some(mem) = ns::read_mem(self.pid, m.start, len) else { continue };
                let off = m.offset as usize;
                if off >= file.len() {
                    continue;
                }
                let cmp = len.min(file.len() - off);
                for k in 0..cmp {
                    if mem[k] != file[off + k] {
                        let a = m.start + k as u64;
                        let site = self.site_addr.iter().position(|x| *x == a).map(|k| format!(" (site{k})")).unwrap_or_default();
                        rep.push(format!("text byte +{:#x}{site} is {:#04x}, file has {:#04x}", a - 0x5555_5555_4000, mem[k], file[off + k]));
                        if rep.len() > 8 {
                            break;
                        }
                    }
                }
            }
            for t in ns::tasks(self.pid) {
                if let Ok(dr7) = raw::peek(seam::PTRACE_PEEKUSER, t, DR_OFFSET + 8 * 7) {
                    if dr7 & 0xff != 0 {
                        rep.push(format!("DR7 of {} is {dr7:#x}", self.name(t)));
                    }
                }
            }
            self.detach_report = Some(rep);
        }
        if !self.active || !self.registered() || self.deadlock {
            return;
        }
        // PTRACE_INTERRUPT races with the wake-up of a tracee the debugger has just resumed: with a
        // signal pending, the kernel takes whichever it sees first (trap-stop or signal-delivery-
        // stop). The simulator owns that race: the tracee has settled (asleep at its gate, or
        // already in a stop) before the request is issued.
        if req == seam::PTRACE_INTERRUPT && !self.quiesce() {
            return;
        }
        // the race the property talks about: a sibling runs while the debugger is busy stopping
        // or resuming the group
        if matches!(req, seam::PTRACE_INTERRUPT | seam::PTRACE_CONT | seam::PTRACE_SINGLESTEP) && self.p_race > 0 {
            let mut n = 0;
            while n < 4 && self.tape.chance(self.p_race, 100) {
                if !self.quiesce() {
                    return;
                }
                let runnable: Vec<usize> = self.runnable().into_iter().filter(|&i| self.ctl.get(W_TID + i) as i32 != pid || req != seam::PTRACE_INTERRUPT).collect();
                if runnable.is_empty() {
                    break;
                }
                let i = runnable[self.tape.choose(runnable.len())];
                let why = match req {
                    seam::PTRACE_INTERRUPT => "[during group stop]",
                    seam::PTRACE_CONT => "[during resume]",
                    _ => "[during single step]",
                };
                if req == seam::PTRACE_INTERRUPT {
                    bump(&mut self.stats, "c09.sibling_advanced_during_group_stop");
                    self.in_group_stop_calls += 1;
                } else if req == seam::PTRACE_SINGLESTEP {
                    bump(&mut self.stats, "c09.sibling_advanced_during_single_step");
                } else {
                    bump(&mut self.stats, "c09.sibling_advanced_during_resume");
                }
                self.advance(i, why);
                n += 1;
            }
            if n > 0 {
                self.quiesce();
            }
            if req == seam::PTRACE_SINGLESTEP && self.p_signal > 0 && self.tape.chance(self.p_signal, 60) {
                // a signal that becomes pending right before a single step of the group
                if self.maybe_signal() {
                    bump(&mut self.stats, "c10.signal_before_single_step");
                    self.quiesce();
                }
            }
        }
    }

    fn after_ptrace(&mut self, req: u32, pid: i32, _addr: u64, data: u64, ret: i64) {
        if self.pid <= 0 || ret < 0 {
            return;
        }
        match req {
            seam::PTRACE_CONT | seam::PTRACE_SINGLESTEP | seam::PTRACE_SYSCALL | seam::PTRACE_LISTEN | seam::PTRACE_DETACH => {
                self.resumed.insert(pid);
                if (req == seam::PTRACE_CONT || req == seam::PTRACE_SINGLESTEP) && data != 0 && self.registered() {
                    bump(&mut self.stats, "c10.injections_seen");
                    self.injections_in_op += 1;
                    let sig = data as i32;
                    let n = self.name(pid);
                    self.logf(format!("    debugger: resumes {n} injecting {sig}"));
                    // an injection is effective only from the signal-delivery-stop of that signal
                    match self.observed.iter().position(|x| *x == (pid, sig)) {
                        Some(p) => {
                            self.observed.remove(p);
                        }
                        None => {
                            // consequence of a discarded delivery-stop (already reported): the
                            // queued request is issued late
                            if let Some(p) = self.suppressed.iter().position(|x| *x == (pid, sig)) {
                                self.suppressed.remove(p);
                                self.late_injections.push((pid, sig));
                            } else {
                                let d = format!("{n} resumed with signal {sig} although it is not in a signal-delivery-stop of that signal (outstanding {:?})", self.observed);
                                self.violate("C10", "injection_without_delivery_stop", d);
                            }
                        }
                    }
                } else if self.registered() && req != seam::PTRACE_DETACH {
                    // resumed without injection: a signal-delivery-stop answered with 0 suppresses
                    // the signal (legitimate for SIGINT only)
                    if let Some(p) = self.observed.iter().position(|x| x.0 == pid) {
                        let (_, sig) = self.observed.remove(p);
                        let n = self.name(pid);
                        self.logf(format!("    debugger: resumes {n} from the delivery-stop of {sig} without injecting it ({})", if req == seam::PTRACE_SINGLESTEP { "single step" } else { "continue" }));
                        self.suppressed.push((pid, sig));
                        if let (Some(i), true) = (self.idx_of(pid), sig != libc::SIGINT) {
                            self.tainted.push((i, sig));
                            self.tainted_threads.insert(i);
                        }
                        if sig != libc::SIGINT {
                            bump(&mut self.stats, "c10.suppressed_at_delivery_stop");
                            let inv = if req == seam::PTRACE_SINGLESTEP { "signal_discarded_by_single_step_from_delivery_stop" } else { "signal_discarded_at_delivery_stop" };
                            if !self.violations.iter().any(|v| v.invariant == inv) {
                                self.violate("C10", inv, format!("{n} sits in the signal-delivery-stop of {sig}; the debugger resumes it with signal 0 ({}), which discards the signal", if req == seam::PTRACE_SINGLESTEP { "PTRACE_SINGLESTEP" } else { "PTRACE_CONT" }));
                            }
                        }
                    }
                }
            }
            seam::PTRACE_INTERRUPT => {
                // takes effect asynchronously: the task must be seen in a stop before the next decision
                if task_state(self.pid, pid) != 't' {
                    self.intr_pending.insert(pid);
                }
            }
            _ => {}
        }
    }

    fn as_any(&mut self) -> &mut dyn std::any::Any {
        self
    }
}

// ---------------------------------------------------------------------- scripts

fn gen_scripts(t: &mut Tape, max_threads: usize, prop: &str) -> Vec<ThModel> {
    let nthreads = if t.chance(1, 8) { 1 } else { 2 + t.choose(max_threads.saturating_sub(1).max(1)) };
    let self_raise = prop == "C10" || t.chance(1, 4);
    let mut threads = vec![];
    let sites_used = 1 + t.choose(NSITES);
    let raise_kinds = [10u32, 12, 15, 28, 14, 23];
    for i in 0..nthreads {
        let len = if t.chance(1, 8) { 0 } else { 2 + t.choose(if i == 0 { 12 } else { 9 }) };
        let mut script = vec![];
        for _ in 0..len {
            let c = t.choose(20);
            let cmd = if c < 11 {
                // shared sites are the interesting ones: bias towards site 0
                let k = if t.chance(1, 2) { 0 } else { t.choose(sites_used) };
                (CMD_SITE, k as u32)
            } else if c < 13 {
                (CMD_NOP, 0)
            } else if c < 15 {
                (CMD_TOUCH, t.choose(8) as u32)
            } else if c < 17 && self_raise {
                (CMD_RAISE, raise_kinds[t.choose(raise_kinds.len())])
            } else if c < 19 {
                (CMD_SPAWN, 0)
            } else {
                (CMD_SITE, t.choose(sites_used) as u32)
            };
            script.push(cmd);
        }
        threads.push(ThModel { script, pc: 0, tid: 0, spawned: i == 0, told_exit: false });
    }
    // make sure every thread gets spawned by somebody: distribute the missing spawns
    let total_spawns: usize = threads.iter().map(|th| th.script.iter().filter(|c| c.0 == CMD_SPAWN).count()).sum();
    if total_spawns > nthreads - 1 {
        // drop surplus spawns (from the back)
        let mut surplus = total_spawns - (nthreads - 1);
        for th in threads.iter_mut().rev() {
            while surplus > 0 {
                if let Some(p) = th.script.iter().rposition(|c| c.0 == CMD_SPAWN) {
                    th.script[p] = (CMD_NOP, 0);
                    surplus -= 1;
                } else {
                    break;
                }
            }
        }
    } else {
        // main spawns the rest at seeded positions
        for _ in 0..(nthreads - 1 - total_spawns) {
            let at = t.choose(threads[0].script.len() + 1);
            threads[0].script.insert(at, (CMD_SPAWN, 0));
        }
    }
    // a thread can only be spawned by a thread with a smaller spawn order; keeping all spawns
    // reachable: if thread k never runs (not spawned) its spawns are lost, main then cannot
    // spawn them - the run is still well formed (fewer threads)
    for (i, th) in threads.iter_mut().enumerate() {
        if i == 0 {
            th.script.push((CMD_JOIN, 0));
            th.script.push((CMD_FINISH, 0));
        } else {
            th.script.push((CMD_EXIT, 0));
        }
    }
    threads
}

// ---------------------------------------------------------------------- driver

fn site_addresses(bin: &Path, base: u64) -> Result<[u64; NSITES], String> {
    let info = crate::reftrace::elf_info(bin)?;
    let data = std::fs::read(bin).map_err(|e| e.to_string())?;
    use object::{Object, ObjectSection};
    let obj = object::File::parse(&*data).map_err(|e| e.to_string())?;
    let text = obj.section_by_name(".text").ok_or("no .text")?;
    let (taddr, tdata) = (text.address(), text.data().map_err(|e| e.to_string())?);
    let mut out = [0u64; NSITES];
    for k in 0..NSITES {
        let (_, a, sz) = info.symbols.iter().find(|(n, _, _)| n == &format!("site{k}")).ok_or(format!("no symbol site{k}"))?;
        let off = (*a - taddr) as usize;
        let body = &tdata[off..off + *sz as usize];
        let p = body.windows(3).position(|w| w == [0xf0, 0x48, 0xff]).ok_or(format!("no lock inc in site{k}"))?;
        out[k] = base + a + p as u64;
    }
    Ok(out)
}

fn read_dr(tid: i32) -> Option<[u64; 8]> {
    let mut d = [0u64; 8];
    for (i, slot) in d.iter_mut().enumerate() {
        if i == 4 || i == 5 {
            continue;
        }
        *slot = raw::peek(seam::PTRACE_PEEKUSER, tid, DR_OFFSET + 8 * i as u64).ok()?;
    }
    Some(d)
}

struct Driver {
    dbg: Option<Debugger>,
    pid: i32,
    events: Events,
    watches: BTreeMap<u32, (u64, u8, bool)>,
    watched_base: u64,
    reader: os_pipe::PipeReader,
    stdout: Vec<u8>,
    exit: Option<i32>,
    bp_nums: [Option<u32>; NSITES],
    stepi_chain: u32,
}

fn w<R>(f: impl FnOnce(&mut MtWorld) -> R) -> R {
    seam::with_world::<MtWorld, R>(f).expect("world installed")
}

impl Driver {
    fn drain_output(&mut self) {
        let mut buf = [0u8; 4096];
        loop {
            match self.reader.read(&mut buf) {
                Ok(0) => break,
                Ok(n) => self.stdout.extend_from_slice(&buf[..n]),
                Err(_) => break,
            }
        }
    }

    /// Oracles evaluated at a reported stop.
    fn at_stop(&mut self, reason: &StopReason, evs: &[Ev]) {
        let pid = self.pid;
        // (i) all-stop: every live task is in a ptrace stop, and stays there
        let t0 = std::time::Instant::now();
        let mut bad: Vec<(i32, char)>;
        loop {
            bad = ns::tasks(pid).into_iter().map(|t| (t, ns::task_state(pid, t))).filter(|(_, s)| !matches!(s, 't' | 'Z' | 'X')).collect();
            // a task that is running towards its death (resumed from PTRACE_EVENT_EXIT) is not a
            // thread the user could see; give it a moment to become a zombie
            if bad.is_empty() || t0.elapsed().as_millis() > 300 {
                break;
            }
            let only_dying = w(|w| bad.iter().all(|(t, _)| w.idx_of(*t).map(|i| w.threads[i].told_exit).unwrap_or(false)));
            if !only_dying {
                break;
            }
            std::thread::yield_now();
        }
        w(|w| bump(&mut w.stats, "c09.stops_checked"));
        let stop_tid = match reason {
            StopReason::Breakpoint(p, _) | StopReason::SignalStop(p, _) => p.as_raw(),
            _ => 0,
        };
        w(|w| w.last_stop_worker = w.idx_of(stop_tid).map(|i| i != 0).unwrap_or(false));
        if !bad.is_empty() {
            let d = w(|w| bad.iter().map(|(t, s)| format!("{} state {s}{}", w.name(*t), w.idx_of(*t).map(|i| if w.parked(i) { " (asleep at its gate, not stopped)" } else { "" }).unwrap_or(""))).collect::<Vec<_>>().join(", "));
            w(|w| w.violate("C09", "not_all_stopped", format!("at reported stop {reason:?}: {d}")));
        }
        let live: BTreeSet<i32> = ns::tasks(pid).into_iter().filter(|t| ns::task_state(pid, *t) == 't').collect();
        // exit-event stops are not user-visible threads any more
        let dbg = self.dbg.as_ref().unwrap();
        let t_ts = std::time::Instant::now();
        let ts_res = dbg.thread_state();
        if std::path::Path::new("/verif/scratch/TRACE").exists() {
            if let Ok(v) = &ts_res {
                for t in v {
                    if let Some(bt) = &t.bt {
                        eprintln!("  bt of {}: {:?}", t.thread.pid, bt.iter().take(14).map(|f| format!("{:#x}:{}", f.ip.as_u64(), f.func_name.clone().unwrap_or_default())).collect::<Vec<_>>());
                    }
                }
            }
            eprintln!("thread_state took {:?}: {:?}", t_ts.elapsed(), ts_res.as_ref().map(|v| v.iter().map(|t| (t.thread.pid.as_raw(), t.bt.as_ref().map(|b| b.len()))).collect::<Vec<_>>()).map_err(|e| e.to_string()));
        }
        match ts_res {
            Ok(ts) => {
                let got: BTreeSet<i32> = ts.iter().map(|t| t.thread.pid.as_raw()).collect();
                let dying: BTreeSet<i32> = w(|w| live.iter().copied().filter(|t| w.idx_of(*t).map(|i| w.threads[i].told_exit).unwrap_or(false)).collect());
                let must: BTreeSet<i32> = live.difference(&dying).copied().collect();
                if !must.is_subset(&got) || !got.is_subset(&live) {
                    w(|w| w.violate("C09", "thread_list", format!("thread_state() lists {got:?}, kernel has live stopped tasks {live:?} (dying {dying:?})")));
                }
                w(|w| {
                    let e = w.stats.entry("c09.threads_at_stop.max".into()).or_default();
                    *e = (*e).max(got.len() as u64);
                });
            }
            Err(e) => w(|w| w.violate("C09", "thread_list", format!("thread_state failed: {e}"))),
        }
        // (ii) exactly-once accounting
        match reason {
            StopReason::Breakpoint(p, a) => {
                let (tid, addr) = (p.as_raw(), a.as_u64());
                let real_rip = raw::getregs(tid).map(|r| r.rip).unwrap_or(0);
                w(|w| {
                    bump(&mut w.stats, "c09.breakpoint_reports");
                    let idx = w.idx_of(tid);
                    let k = w.site_addr.iter().position(|x| *x == addr);
                    match (idx, k) {
                        (Some(i), Some(k)) => {
                            if let Some(p) = w.arrivals.iter().position(|x| *x == (i, k)) {
                                w.arrivals.remove(p);
                            } else if let Some(p) = w.soft_arrivals.iter().position(|x| *x == (i, k)) {
                                w.soft_arrivals.remove(p);
                            } else if w.tainted_threads.contains(&i) {
                                // the interrupted step over this breakpoint never completed
                                // (KF-C10-1): the thread re-executes the trap
                                bump(&mut w.stats, "c09.report_not_judged_after_discarded_delivery_stop");
                            } else {
                                w.violate("C09", "spurious_breakpoint_report", format!("Breakpoint reported for T{i} at site{k}, but that thread has no unreported arrival there (pending {:?})", w.arrivals));
                            }
                        }
                        _ => w.violate("C09", "unknown_breakpoint_report", format!("Breakpoint reported for tid {tid} at {addr:#x}: not a thread/site of the script")),
                    }
                    if real_rip != addr {
                        w.violate("C09", "stop_pc", format!("Breakpoint reported at {addr:#x} but the thread's pc is {real_rip:#x}"));
                    }
                });
                let n = evs.iter().filter(|e| matches!(e, Ev::Breakpoint { .. })).count();
                if n != 1 {
                    w(|w| w.violate("C09", "hook_count", format!("{n} on_breakpoint calls for one reported stop")));
                }
            }
            StopReason::SignalStop(p, s) => {
                let (tid, sig) = (p.as_raw(), *s as i32);
                let rip = raw::getregs(tid).map(|r| r.rip).unwrap_or(0);
                w(|w| {
                    bump(&mut w.stats, "c10.signal_reports");
                    let idx = w.idx_of(tid);
                    if QUIET.contains(&sig) {
                        // known mechanism: resume() injects the head of its queue and reports
                        // the next queued signal as a stop, whatever its kind
                        // (the head's injection is not always visible: its thread may be gone.
                        // What identifies the mechanism is that the reported signal was not
                        // taken from a delivery-stop of this operation but from the queue.)
                        let from_queue = w.injections_in_op > 0 || !w.fresh_delivery_in_op.contains(&(tid, sig));
                        let inv = if from_queue { "quiet_signal_reported_when_queued_behind_another" } else { "quiet_signal_reported" };
                        w.violate("C10", inv, format!("quiet signal {sig} surfaced as a stop of {}", w.name(tid)));
                    }
                    match idx.and_then(|i| w.sent.iter().position(|x| x.idx == i && x.sig == sig && x.reported == 0)) {
                        Some(p) => w.sent[p].reported += 1,
                        None if idx.map(|i| w.tainted.contains(&(i, sig)) || w.tainted_threads.contains(&i)).unwrap_or(false) => {
                            bump(&mut w.stats, "c10.report_not_judged_after_discarded_delivery_stop");
                        }
                        None => {
                            let whose: Vec<String> = w.sent.iter().filter(|x| x.sig == sig).map(|x| format!("T{}x{}", x.idx, x.reported)).collect();
                            // known mechanism (KF-C10-4): a signal already reported when its
                            // delivery-stop was seen is reported again, out of the injection
                            // queue, when a resume finds it behind the queue's head
                            let from_queue = !w.fresh_delivery_in_op.contains(&(tid, sig));
                            let again = w.sent.iter().any(|x| Some(x.idx) == idx && x.sig == sig);
                            let inv = if again && from_queue { "signal_reported_again_from_injection_queue" } else if again { "signal_reported_twice" } else if whose.is_empty() { "signal_report_without_signal" } else { "signal_reported_for_wrong_thread" };
                            w.violate("C10", inv, format!("SignalStop({}, {sig}) does not match an unreported sent signal (sent {sig}: {whose:?})", w.name(tid)));
                        }
                    }
                    // a signal stop at an armed site pc accounts for that arrival
                    if let (Some(i), Some(k)) = (idx, w.site_addr.iter().position(|x| *x == rip)) {
                        if let Some(p) = w.arrivals.iter().position(|x| *x == (i, k)) {
                            w.arrivals.remove(p);
                            w.soft_arrivals.push((i, k));
                            bump(&mut w.stats, "c09.arrival_accounted_by_signal_stop");
                        }
                    }
                });
            }
            _ => {}
        }
        // (C14) every thread carries the same debug-register image = the model
        if !self.watches.is_empty() {
            for t in &live {
                if let Some(dr) = read_dr(*t) {
                    let mut enabled: Vec<(u64, u8, bool)> = vec![];
                    for k in 0..4 {
                        if dr[7] >> (2 * k) & 3 == 0 {
                            continue;
                        }
                        let rw = dr[7] >> (16 + 4 * k) & 3;
                        let len = dr[7] >> (18 + 4 * k) & 3;
                        enabled.push((dr[k as usize], [1u8, 2, 8, 4][len as usize], rw == 3));
                    }
                    enabled.sort();
                    let mut m: Vec<(u64, u8, bool)> = self.watches.values().copied().collect();
                    m.sort();
                    w(|w| bump(&mut w.stats, "c14.thread_dr_image_checked"));
                    if enabled != m {
                        w(|w| w.violate("C14", "thread_dr_image", format!("{}: debug registers encode {enabled:x?} (DR7 {:#x}) but active watchpoints are {m:x?}", w.name(*t), dr[7])));
                    }
                }
            }
        }
    }
}

pub fn run(spec: &WorkerSpec) -> WorkerResult {
    let t_all = std::time::Instant::now();
    let prop = spec.property.as_str();
    let mut tape = match &spec.tape {
        Some(t) => Tape::replay(t.clone()),
        None => Tape::record(spec.seed),
    };
    // control block
    let ctl_dir = "/verif/scratch/ctl";
    let _ = std::fs::create_dir_all(ctl_dir);
    let ctl_path = format!("{ctl_dir}/{:016x}", crate::compile::hash_str(&spec.out));
    std::fs::write(&ctl_path, vec![0u8; 4096]).unwrap();
    let f = std::fs::OpenOptions::new().read(true).write(true).open(&ctl_path).unwrap();
    let ptr = unsafe { libc::mmap(std::ptr::null_mut(), 4096, libc::PROT_READ | libc::PROT_WRITE, libc::MAP_SHARED, std::os::fd::AsRawFd::as_raw_fd(&f), 0) } as *mut u32;
    unsafe { std::env::set_var("VERIF_CTL", &ctl_path) };
    // swarm configuration of this run
    let max_threads = spec.params.get("max_threads").and_then(|v| v.as_u64()).unwrap_or(6) as usize;
    let threads = gen_scripts(&mut tape, max_threads, prop);
    let p_race = [0usize, 25, 50, 80][tape.choose(4)];
    let p_deliver = [20usize, 50, 80][tape.choose(3)];
    let (p_signal, sig_budget) = if prop == "C10" { ([5usize, 15, 30][tape.choose(3)], 2 + tape.choose(10)) } else if tape.chance(1, 4) { (5, 1 + tape.choose(3)) } else { (0, 0) };
    let all_kinds = [10, 12, 15, 28, 14, 23, 17, 29, 26, 27, 2];
    let sig_kinds: Vec<i32> = all_kinds.iter().copied().filter(|_| tape.chance(1, 2)).collect();
    let sig_kinds = if sig_kinds.is_empty() { vec![10] } else { sig_kinds };
    let mut log0 = vec![format!("config: threads={} p_race={p_race} p_deliver={p_deliver} p_signal={p_signal} sig_budget={sig_budget} kinds={sig_kinds:?}", threads.len())];
    for (i, th) in threads.iter().enumerate() {
        log0.push(format!("script T{i}: {:?}", th.script));
    }
    seam::start_recording();
    let (reader, writer) = os_pipe::pipe().unwrap();
    unsafe {
        let fl = libc::fcntl(std::os::fd::AsRawFd::as_raw_fd(&reader), libc::F_GETFL);
        libc::fcntl(std::os::fd::AsRawFd::as_raw_fd(&reader), libc::F_SETFL, fl | libc::O_NONBLOCK);
    }
    bugstalker::debugger::rust::Environment::init(None);
    let runner = Child::new(spec.bin.clone(), Vec::<String>::new(), None::<&Path>, writer.try_clone().unwrap(), writer);
    let t_inst = std::time::Instant::now();
    let process = match runner.install() {
        Ok(p) => p,
        Err(e) => return WorkerResult { verdict: "harness_error".into(), detail: format!("install: {e}"), ..Default::default() },
    };
    let pid = process.pid().as_raw();
    let events = Events::default();
    let dbg = match DebuggerBuilder::<Events>::new().with_hooks(events.clone()).build(process) {
        Ok(d) => d,
        Err(e) => return WorkerResult { verdict: "harness_error".into(), detail: format!("build: {e}"), ..Default::default() },
    };
    drop(runner);
    if std::path::Path::new("/verif/scratch/TRACE").exists() {
        eprintln!("install+build took {:?} (since worker start {:?})", t_inst.elapsed(), t_all.elapsed());
    }
    let base = 0x5555_5555_4000u64;
    let site_addr = match site_addresses(Path::new(&spec.bin), base) {
        Ok(a) => a,
        Err(e) => return WorkerResult { verdict: "harness_error".into(), detail: e, ..Default::default() },
    };
    let info = crate::reftrace::elf_info(Path::new(&spec.bin)).unwrap();
    let watched_base = base + info.data.get("WATCHED").copied().unwrap_or(0);
    let world = MtWorld {
        ctl: Ctl(ptr),
        pid,
        tape,
        threads,
        nspawned: 1,
        resumed: BTreeSet::new(),
        intr_pending: BTreeSet::new(),
        sig_in_flight: BTreeSet::new(),
        dead: BTreeSet::new(),
        log: log0,
        stats: BTreeMap::new(),
        violations: vec![],
        site_addr,
        armed: [false; NSITES],
        arrivals: vec![],
        soft_arrivals: vec![],
        site_execs: [0; NSITES],
        sent: vec![],
        deadlock: false,
        active: true,
        detached: false,
        detach_report: None,
        bin: spec.bin.clone(),
        sig_budget,
        sig_kinds,
        p_race,
        p_deliver,
        p_signal,
        p_detach: if prop == "C11" { 8 } else if prop == "C09" { 2 } else { 0 },
        watch_heavy: prop == "C14",
        bp_creators: vec![],
        last_stop_worker: false,
        in_group_stop_calls: 0,
        observed: vec![],
        suppressed: vec![],
        late_injections: vec![],
        last_wait_pid: 0,
        injections_in_op: 0,
        fresh_delivery_in_op: vec![],
        seen_in_group_stop: vec![],
        tainted: vec![],
        tainted_threads: BTreeSet::new(),
        step: 0,
        harness_error: None,
    };
    if std::path::Path::new("/verif/scratch/TRACE").exists() {
        eprintln!("world ready at {:?}", t_all.elapsed());
    }
    seam::install_world(Box::new(world));
    let mut d = Driver { dbg: Some(dbg), pid, events, watches: BTreeMap::new(), watched_base, reader, stdout: vec![], exit: None, bp_nums: [None; NSITES], stepi_chain: 0 };
    let max_ops = spec.params.get("max_ops").and_then(|v| v.as_u64()).unwrap_or(40) as usize;
    let mut started = false;
    let mut ops = 0usize;
    let mut exited = false;
    let mut detached = false;
    // before start: arm some sites
    let pre = 1 + w(|w| w.tape.choose(3));
    let mut plan: Vec<u8> = vec![];
    for _ in 0..pre {
        plan.push(0);
    }
    plan.push(9); // start
    let mut budget = max_ops;
    while budget > 0 && !exited {
        budget -= 1;
        ops += 1;
        let kind = if let Some(k) = plan.first().copied() {
            plan.remove(0);
            k
        } else {
            // 0 arm, 1 disarm, 2..6 continue, 7 watch add/remove, 8 stepi at site, 10 detach
            w(|w| {
                let k = if w.p_detach >= 5 && w.last_stop_worker && w.tape.chance(1, 2) {
                    0
                } else if w.watch_heavy { [0u8, 0, 1, 2, 2, 2, 2, 7, 7, 7, 7, 8][w.tape.choose(12)] } else { [0u8, 0, 1, 2, 2, 2, 2, 2, 2, 7, 8, 8][w.tape.choose(12)] };
                if w.p_detach > 0 && w.step >= 6 && w.tape.chance(w.p_detach, 100) { 10 } else { k }
            })
        };
        w(|w| {
            w.step = ops;
            w.injections_in_op = 0;
            w.fresh_delivery_in_op.clear();
        });
        let ev0 = d.events.0.borrow().len();
        let mut dbg = d.dbg.take().unwrap();
        match kind {
            0 => {
                let k = w(|w| if w.tape.chance(1, 2) { 0 } else { w.tape.choose(NSITES) });
                if w(|w| w.armed[k]) {
                    d.dbg = Some(dbg);
                    continue;
                }
                let a = site_addr[k];
                let by_fn = w(|w| w.tape.chance(if w.p_detach >= 5 { 2 } else { 1 }, 3));
                if by_fn {
                    // by function name: accepted when it denotes exactly the site instruction
                    let r = dbg.set_breakpoint_at_fn(&format!("site{k}")).map(|v| v.iter().map(|b| (b.number, match b.addr { bugstalker::debugger::address::Address::Relocated(r) => r.as_u64(), bugstalker::debugger::address::Address::Global(g) => 0x5555_5555_4000 + u64::from(g) })).collect::<Vec<_>>());
                    match r {
                        Ok(v) if v.len() == 1 && v[0].1 == a => {
                            d.bp_nums[k] = Some(v[0].0);
                            let focus = dbg.ecx().pid_on_focus().as_raw();
                            w(|w| {
                                w.armed[k] = true;
                                if let (true, Some(i)) = (started, w.idx_of(focus)) {
                                    if i != 0 {
                                        bump(&mut w.stats, "c11.breakpoint_created_with_worker_thread_in_focus");
                                        w.bp_creators.push(i);
                                    }
                                }
                                bump(&mut w.stats, "c09.armed_by_function_name");
                                w.logf(format!("{ops:3} arm site{k} (by function name)"));
                            });
                        }
                        Ok(v) => {
                            // another address than the site instruction: not usable for the accounting
                            let _ = dbg.remove_breakpoint_at_fn(&format!("site{k}"));
                            w(|w| w.logf(format!("{ops:3} arm site{k} by name gave {} places: removed again", v.len())));
                        }
                        Err(e) => w(|w| w.logf(format!("{ops:3} arm site{k} by name -> Err({e})"))),
                    }
                    d.dbg = Some(dbg);
                    continue;
                }
                match dbg.set_breakpoint_at_addr(RelocatedAddress::from(a)) {
                    Ok(v) => {
                        d.bp_nums[k] = Some(v.number);
                        w(|w| {
                            w.armed[k] = true;
                            w.logf(format!("{ops:3} arm site{k}"));
                        });
                    }
                    Err(e) => w(|w| w.logf(format!("{ops:3} arm site{k} -> Err({e})"))),
                }
            }
            1 => {
                let k = w(|w| w.tape.choose(NSITES));
                // only when no arrival at that site awaits its report (see DESIGN C09)
                let busy = w(|w| !w.armed[k] || w.arrivals.iter().any(|x| x.1 == k) || w.soft_arrivals.iter().any(|x| x.1 == k));
                if busy {
                    d.dbg = Some(dbg);
                    continue;
                }
                let r = dbg.remove_breakpoint(bugstalker::debugger::address::Address::Relocated(RelocatedAddress::from(site_addr[k])));
                w(|w| {
                    w.armed[k] = false;
                    w.logf(format!("{ops:3} disarm site{k} -> {}", if r.is_ok() { "ok" } else { "Err" }));
                });
            }
            7 => {
                if !started {
                    d.dbg = Some(dbg);
                    continue;
                }
                let rm = !d.watches.is_empty() && w(|w| w.tape.chance(1, 3));
                if rm {
                    let n = *d.watches.keys().nth(w(|w| w.tape.choose(d.watches.len()))).unwrap();
                    let r = dbg.remove_watchpoint_by_number(n);
                    d.watches.remove(&n);
                    w(|w| w.logf(format!("{ops:3} unwatch #{n} -> {}", if r.is_ok() { "ok" } else { "Err" })));
                } else {
                    let slot = w(|w| w.tape.choose(8)) as u64;
                    let a = d.watched_base + 8 * slot;
                    let rw = w(|w| w.tape.chance(1, 2));
                    let r = dbg.set_watchpoint_on_memory(RelocatedAddress::from(a), BreakSize::Bytes8, if rw { BreakCondition::DataReadsWrites } else { BreakCondition::DataWrites }, false);
                    match r {
                        Ok(v) => {
                            d.watches.insert(v.number, (a, 8, rw));
                            w(|w| {
                                bump(&mut w.stats, "c14.mt_watch_added");
                                w.logf(format!("{ops:3} watch WATCHED[{slot}] {} -> #{}", if rw { "rw" } else { "w" }, v.number))
                            });
                        }
                        Err(e) => w(|w| w.logf(format!("{ops:3} watch WATCHED[{slot}] -> Err({e})"))),
                    }
                }
            }
            8 => {
                // stepi of the focus thread when it sits on a site instruction: executes exactly
                // the (non-idempotent) original instruction
                if !started {
                    d.dbg = Some(dbg);
                    continue;
                }
                let focus = dbg.ecx().pid_on_focus().as_raw();
                let rip = raw::getregs(focus).map(|r| r.rip).unwrap_or(0);
                // a second and third stepi right behind the site instruction (its `ret` and the
                // first instruction back in the interpreter): still far from any blocking call
                let follow = site_addr.iter().position(|a| rip > *a && rip <= *a + 9);
                if let (Some(k), true) = (follow, d.stepi_chain > 0 && d.stepi_chain < 3) {
                    let r = dbg.stepi();
                    d.stepi_chain += 1;
                    w(|w| {
                        bump(&mut w.stats, "c09.stepi_behind_site");
                        w.logf(format!("{ops:3} stepi {} behind site{k} -> {}", w.name(focus), if r.is_ok() { "ok" } else { "Err" }));
                    });
                    if r.is_ok() {
                        let evs: Vec<Ev> = d.events.0.borrow()[ev0..].to_vec();
                        for e in &evs {
                            if let Ev::Signal(s) = e {
                                let s = *s;
                                w(|w| {
                                    let i = w.idx_of(focus);
                                    match i.and_then(|i| w.sent.iter().position(|x| x.idx == i && x.sig == s && x.reported == 0)) {
                                        Some(p) => w.sent[p].reported += 1,
                                        None if i.map(|i| w.tainted_threads.contains(&i)).unwrap_or(false) => {}
                                        None => w.violate("C10", "signal_report_without_signal", format!("stepi reported signal {s} for {} which was not sent", w.name(focus))),
                                    }
                                    bump(&mut w.stats, "c10.signal_reported_by_step");
                                });
                            }
                        }
                    }
                    d.dbg = Some(dbg);
                    continue;
                }
                if let Some(k) = site_addr.iter().position(|a| *a == rip) {
                    d.stepi_chain = 1;
                    let r = dbg.stepi();
                    let rip2 = raw::getregs(focus).map(|r| r.rip).unwrap_or(0);
                    let cut_by_signal = d.events.0.borrow()[ev0..].iter().any(|e| matches!(e, Ev::Signal(_)));
                    w(|w| {
                        bump(&mut w.stats, "c09.stepi_at_site");
                        w.logf(format!("{ops:3} stepi {} at site{k} -> {}", w.name(focus), if r.is_ok() { "ok" } else { "Err" }));
                        if r.is_ok() && !cut_by_signal && rip2 != rip + 8 && rip2 != rip + 7 {
                            // `lock inc qword ptr [rip+disp32]` is 7 or 8 bytes long
                            if !(rip2 > rip && rip2 <= rip + 9) {
                                w.violate("C09", "stepi_at_site", format!("stepi at site{k}: pc went {rip:#x} -> {rip2:#x}"));
                            }
                        }
                    });
                    if r.is_ok() {
                        let evs: Vec<Ev> = d.events.0.borrow()[ev0..].to_vec();
                        // a signal may cut the step short: then it is reported through on_signal
                        for e in &evs {
                            if let Ev::Signal(s) = e {
                                let s = *s;
                                w(|w| {
                                    let i = w.idx_of(focus);
                                    match i.and_then(|i| w.sent.iter().position(|x| x.idx == i && x.sig == s && x.reported == 0)) {
                                        Some(p) => w.sent[p].reported += 1,
                                        None => w.violate("C10", "signal_report_without_signal", format!("stepi reported signal {s} for {} which was not sent", w.name(focus))),
                                    }
                                    bump(&mut w.stats, "c10.signal_reported_by_step");
                                });
                            }
                        }
                    }
                } else {
                    d.dbg = Some(dbg);
                    continue;
                }
            }
            10 => {
                if !started {
                    d.dbg = Some(dbg);
                    continue;
                }
                let r = dbg.detach();
                w(|w| {
                    w.detached = true;
                    w.active = false;
                    bump(&mut w.stats, "c11.mt_detach");
                    if w.bp_creators.iter().any(|i| w.threads[*i].told_exit) {
                        bump(&mut w.stats, "c11.detach_after_breakpoint_creator_thread_exited");
                    }
                    w.logf(format!("{ops:3} detach -> {}", if r.is_ok() { "ok".to_string() } else { format!("Err({})", r.as_ref().err().unwrap()) }));
                });
                d.dbg = Some(dbg);
                detached = true;
                break;
            }
            _ => {
                // start / continue
                let r = if !started { dbg.start_debugee_with_reason() } else { dbg.continue_debugee_with_reason() };
                d.stepi_chain = 0;
                let was_started = started;
                started = true;
                d.dbg = Some(dbg);
                let evs: Vec<Ev> = d.events.0.borrow()[ev0..].to_vec();
                match r {
                    Ok(reason) => {
                        let desc = w(|w| match &reason {
                            StopReason::Breakpoint(p, a) => format!("Breakpoint({} site{})", w.name(p.as_raw()), w.site_addr.iter().position(|x| *x == a.as_u64()).map(|k| k.to_string()).unwrap_or("?".into())),
                            StopReason::SignalStop(p, s) => format!("Signal({} {})", w.name(p.as_raw()), *s as i32),
                            StopReason::DebugeeExit(c) => format!("Exit({c})"),
                            other => format!("{other:?}"),
                        });
                        w(|w| w.logf(format!("{ops:3} {} -> {desc}", if was_started { "continue" } else { "start" })));
                        match &reason {
                            StopReason::DebugeeExit(c) => {
                                exited = true;
                                d.exit = Some(*c);
                            }
                            StopReason::NoSuchProcess(_) => {
                                exited = true;
                            }
                            _ => d.at_stop(&reason, &evs),
                        }
                    }
                    Err(e) => {
                        w(|w| w.logf(format!("{ops:3} continue -> Err({e})")));
                        if ns::task_state(pid, pid) == 'X' || ns::task_state(pid, pid) == 'Z' || w(|w| w.deadlock) {
                            exited = true;
                        } else {
                            w(|w| w.violate("C09", "continue_failed", format!("continue failed while the debuggee is alive: {e}")));
                            exited = true;
                        }
                    }
                }
                d.drain_output();
                if let Some(he) = w(|w| w.harness_error.clone()) {
                    let _ = he;
                    break;
                }
                continue;
            }
        }
        d.dbg = Some(dbg);
    }
    // run to completion (bounded)
    let mut extra = 0;
    while !exited && !detached && extra < 200 && w(|w| w.harness_error.is_none()) {
        extra += 1;
        ops += 1;
        w(|w| {
            w.step = ops;
            w.injections_in_op = 0;
            w.fresh_delivery_in_op.clear();
        });
        let ev0 = d.events.0.borrow().len();
        let mut dbg = d.dbg.take().unwrap();
        let r = if !started { dbg.start_debugee_with_reason() } else { dbg.continue_debugee_with_reason() };
        started = true;
        d.dbg = Some(dbg);
        let evs: Vec<Ev> = d.events.0.borrow()[ev0..].to_vec();
        match r {
            Ok(reason) => {
                let desc = w(|w| match &reason {
                    StopReason::Breakpoint(p, a) => format!("Breakpoint({} site{})", w.name(p.as_raw()), w.site_addr.iter().position(|x| *x == a.as_u64()).map(|k| k.to_string()).unwrap_or("?".into())),
                    StopReason::SignalStop(p, s) => format!("Signal({} {})", w.name(p.as_raw()), *s as i32),
                    StopReason::DebugeeExit(c) => format!("Exit({c})"),
                    other => format!("{other:?}"),
                });
                w(|w| w.logf(format!("{ops:3} continue -> {desc}")));
                match &reason {
                    StopReason::DebugeeExit(c) => {
                        exited = true;
                        d.exit = Some(*c);
                    }
                    StopReason::NoSuchProcess(_) => exited = true,
                    _ => d.at_stop(&reason, &evs),
                }
            }
            Err(e) => {
                w(|w| w.logf(format!("{ops:3} continue -> Err({e})")));
                if !(ns::task_state(pid, pid) == 'X' || ns::task_state(pid, pid) == 'Z' || w(|w| w.deadlock)) {
                    w(|w| w.violate("C09", "continue_failed", format!("continue failed while the debuggee is alive: {e}")));
                }
                exited = true;
            }
        }
        d.drain_output();
    }
    let mut detached_status: Option<i32> = None;
    if detached {
        // C11: the released process runs on, with original code, to its normal end.  The
        // harness alone releases the gates now (same tape).
        let rep = w(|w| w.detach_report.take());
        match rep {
            Some(r) if r.is_empty() => w(|w| bump(&mut w.stats, "c11.mt_detach_clean")),
            Some(r) => w(|w| w.violate("C02", "patch_left_at_detach", r.join("; "))),
            None => w(|w| w.violate("C11", "no_detach_syscall", "detach returned without PTRACE_DETACH".into())),
        }
        let t0 = std::time::Instant::now();
        let mut zombie_spins = 0u32;
        loop {
            // threads that had exited before the detach are still this process's to reap (it was
            // their tracer); the leader's status arrives once they are gone
            let mut st = 0i32;
            let r = raw::wait4(-1, &mut st, libc::WNOHANG | libc::__WALL);
            if r == pid && (libc::WIFEXITED(st) || libc::WIFSIGNALED(st)) {
                detached_status = Some(st);
                break;
            }
            if r > 0 {
                continue;
            }
            if t0.elapsed().as_secs() > 10 {
                break;
            }
            let moved = w(|w| {
                // every task must be asleep at its gate or gone before the next release
                // (the task list and the states are not one atomic snapshot: a thread created
                // between the two reads would be missed, so every spawned thread must have
                // registered itself, and two consecutive observations must be identical)
                if !(0..w.nspawned.min(MAX_THREADS)).all(|i| w.ctl.get(W_TID + i) != 0) {
                    return false;
                }
                let observe = |w: &MtWorld| -> Option<Vec<(i32, char, u32, u32)>> {
                    let tasks = w.tasks_checked();
                    let mut obs = vec![];
                    for &t in &tasks {
                        let st = ns::task_state(w.pid, t);
                        let i = w.idx_of(t);
                        let quiet = matches!(st, 'Z' | 'X') || (st == 'S' && i.map(|i| w.parked(i)).unwrap_or(false));
                        if !quiet {
                            return None;
                        }
                        obs.push((t, st, i.map(|i| w.ctl.get(W_TICKET + i)).unwrap_or(0), i.map(|i| w.ctl.get(W_PHASE + i)).unwrap_or(0)));
                    }
                    Some(obs)
                };
                let Some(o1) = observe(w) else { return false };
                let Some(o2) = observe(w) else { return false };
                // exiting threads (zombies on their way out of the list) settle first
                if o1 != o2 {
                    return false;
                }
                if o1.iter().any(|x| matches!(x.1, 'Z' | 'X') && x.0 != w.pid) && zombie_spins < 20_000 {
                    zombie_spins += 1;
                    return false;
                }
                zombie_spins = 0;
                let r = w.runnable();
                if r.is_empty() {
                    return false;
                }
                let i = if r.len() == 1 { r[0] } else { r[w.tape.choose(r.len())] };
                let why = format!("[after detach, of {:?}]", r);
                w.advance(i, &why);
                true
            });
            if !moved {
                std::thread::yield_now();
            }
        }
        match detached_status {
            Some(st) if libc::WIFEXITED(st) => {
                exited = true;
                d.exit = Some(libc::WEXITSTATUS(st));
                w(|w| bump(&mut w.stats, "c11.mt_detached_process_completed"));
            }
            Some(st) => {
                let sig = libc::WTERMSIG(st);
                w(|w| w.violate("C11", "detached_process_died", format!("after detach the process was killed by signal {sig}")));
            }
            None => {
                let snap: Vec<String> = ns::tasks(pid).iter().map(|&t| format!("{}:{}", w(|w| w.name(t)), ns::task_state(pid, t))).collect();
                w(|w| w.violate("C11", "detached_process_stuck", format!("after detach the process does not finish: tasks {snap:?}")));
                unsafe { libc::kill(pid, libc::SIGKILL) };
            }
        }
    }
    w(|w| w.active = false);
    let dbg = d.dbg.take();
    drop(dbg);
    d.drain_output();
    let mut world = seam::take_world().unwrap();
    let wld = world.as_any().downcast_mut::<MtWorld>().unwrap();
    // final oracles
    let finished = wld.ctl.get(W_DONE) == 1;
    if let Some(he) = &wld.harness_error {
        let mut log = wld.log.clone();
        log.push(format!("harness error: {he}"));
        let _ = std::fs::remove_file(&ctl_path);
        return WorkerResult { verdict: "harness_error".into(), detail: he.clone(), log, tape: wld.tape.rec.clone(), stats: wld.stats.clone(), ops, ..Default::default() };
    }
    if exited && finished && !wld.deadlock {
        bump(&mut wld.stats, "c09.completed_runs");
        let ctr: Vec<u64> = (0..NSITES).map(|k| wld.ctl.get(W_CTR + k) as u64).collect();
        for k in 0..NSITES {
            if ctr[k] != wld.site_execs[k] {
                let d = format!("site{k}: the program counted {} executions of the site instruction, the script ran it {} times", ctr[k], wld.site_execs[k]);
                wld.violate("C09", if ctr[k] < wld.site_execs[k] { "site_instruction_skipped" } else { "site_instruction_executed_twice" }, d);
            }
        }
        if !wld.arrivals.is_empty() && !wld.detached {
            let d = format!("arrivals at armed sites never reported as a stop: {:?} (thread, site)", wld.arrivals);
            wld.violate("C09", "arrival_not_reported", d);
        }
        let (out, code) = predicted_output([ctr[0], ctr[1], ctr[2], ctr[3]]);
        let got = String::from_utf8_lossy(&d.stdout).to_string();
        if got != out {
            wld.violate("C02", "output_differs", format!("debuggee output {got:?}, predicted {out:?}"));
        }
        if let Some(c) = d.exit {
            if c != code {
                wld.violate("C11", "exit_code", format!("reported exit code {c}, predicted {code}"));
            }
        }
        // C10: sent = handled = reported
        let mut per_sig: BTreeMap<i32, u64> = BTreeMap::new();
        for s in &wld.sent {
            *per_sig.entry(s.sig).or_default() += 1;
        }
        for &s in HANDLED {
            let sent = per_sig.get(&s).copied().unwrap_or(0);
            let handled = wld.ctl.get(W_HCNT + (s as usize & 31)) as u64;
            let expect = if s == 2 { 0 } else { sent };
            if sent > 0 {
                add(&mut wld.stats, "c10.signals_sent", sent);
                bump(&mut wld.stats, "c10.signal_kinds_checked");
            }
            // signals whose delivery-stop the debugger discarded (reported as such) may or may
            // not reach the handler through the late injection: the only relaxation
            let slack = wld.tainted.iter().filter(|x| x.1 == s).count() as u64;
            if handled != expect && !(s != 2 && handled + slack >= expect && handled <= expect) {
                let inv = if handled < expect { "signal_lost" } else if s == 2 { "sigint_delivered" } else { "signal_duplicated" };
                wld.violate("C10", inv, format!("signal {s}: sent {sent} times, handler ran {handled} times (expected {expect})"));
            }
        }
        let unrep: Vec<SentSignal> = wld.sent.iter().filter(|x| !QUIET.contains(&x.sig) && x.reported == 0 && !wld.tainted.contains(&(x.idx, x.sig)) && !wld.tainted_threads.contains(&x.idx)).cloned().collect();
        let (gs, other): (Vec<SentSignal>, Vec<SentSignal>) = unrep.into_iter().partition(|x| wld.seen_in_group_stop.contains(&(x.idx, x.sig)));
        let fmt = |v: &Vec<SentSignal>| v.iter().map(|x| format!("T{} sig {} ({})", x.idx, x.sig, x.how)).collect::<Vec<_>>();
        if !gs.is_empty() && !wld.detached {
            let d = format!("non-quiet signals whose delivery-stop was consumed during a group stop were injected without ever being reported: {:?}", fmt(&gs));
            wld.violate("C10", "signal_seen_during_group_stop_never_reported", d);
        }
        if !other.is_empty() && !wld.detached {
            let d = format!("non-quiet signals delivered without a reported stop: {:?}", fmt(&other));
            wld.violate("C10", "signal_not_reported", d);
        }
    } else if !wld.deadlock {
        bump(&mut wld.stats, "c09.unfinished_runs");
    }
    // C11: nothing left behind
    {
        let t0 = std::time::Instant::now();
        let mut left: Vec<(i32, char, String)>;
        loop {
            left = ns::all_processes().into_iter().filter(|(p, st, _)| *p > 2 && *st != 'Z').collect();
            if left.is_empty() || t0.elapsed().as_millis() > 1500 {
                break;
            }
            std::thread::yield_now();
        }
        if !left.is_empty() && !wld.deadlock {
            wld.violate("C11", "process_left_behind", format!("after dropping the debugger live processes remain: {left:?}"));
        }
    }
    let _ = std::fs::remove_file(&ctl_path);
    let mut stats = wld.stats.clone();
    add(&mut stats, "time_us.total", t_all.elapsed().as_micros() as u64);
    add(&mut stats, "c09.threads_spawned", wld.nspawned as u64);
    let e = stats.entry("c09.threads.max".into()).or_default();
    *e = (*e).max(wld.nspawned as u64);
    let verdict = if wld.violations.is_empty() { "ok" } else { "violation" };
    WorkerResult { verdict: verdict.into(), violations: wld.violations.clone(), detail: String::new(), log: wld.log.clone(), tape: wld.tape.rec.clone(), stats, ops, seam_calls: seam::N_PTRACE.load(std::sync::atomic::Ordering::Relaxed) + seam::N_WAIT.load(std::sync::atomic::Ordering::Relaxed) }
}

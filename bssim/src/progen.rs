//! Seeded generator of debuggee programs (micro family: `#![no_std]`, libc only).
//! Ground truth does not come from the generator but from the reference tracer; the generator
//! only guarantees termination, determinism and the TICK discipline that makes
//! (rip, rsp, TICK) identify a position of the execution uniquely:
//!   * every function bumps TICK on entry, every loop body bumps TICK,
//!   * so between two consecutive TICK values execution is a path without back edge or
//!     function entry, and no instruction address repeats with the same stack pointer.

use crate::rng::Tape;
use serde::{Deserialize, Serialize};

#[derive(Clone, Debug, Serialize, Deserialize)]
pub struct ProgramSpec {
    pub family: String,
    pub toolchain: String,
    pub opt_level: u8,
    pub pie: bool,
    pub src: String,
    /// names of generated functions (for function breakpoints / calls)
    pub functions: Vec<String>,
    /// extra rustc args (cdylib etc.)
    #[serde(default)]
    pub extra_args: Vec<String>,
}

pub const PRELUDE: &str = r#"#![no_std]
#![no_main]
#![allow(unused)]
use core::panic::PanicInfo;
#[panic_handler]
fn panic(_: &PanicInfo) -> ! { unsafe { exit(101) } }
#[unsafe(no_mangle)] pub extern "C" fn rust_eh_personality() {}
#[link(name = "c")]
unsafe extern "C" {
    fn write(fd: i32, buf: *const u8, n: usize) -> isize;
    fn exit(code: i32) -> !;
}
#[unsafe(no_mangle)] pub static mut TICK: u64 = 0;
macro_rules! t { () => { unsafe { core::ptr::write_volatile(&raw mut TICK, core::ptr::read_volatile(&raw const TICK) + 1) } } }
#[inline(never)]
fn emit(v: u64) {
    t!();
    let mut buf = [0u8; 24];
    let mut i = 23;
    buf[i] = b'\n';
    let mut x = v;
    loop {
        i -= 1;
        buf[i] = b'0' + (x % 10) as u8;
        x /= 10;
        t!();
        if x == 0 {
            break;
        }
    }
    unsafe { write(1, buf.as_ptr().add(i), 24 - i); }
}
#[inline(never)]
fn emit_err(v: u64) {
    t!();
    let mut buf = [0u8; 24];
    let mut i = 23;
    buf[i] = b'\n';
    let mut x = v;
    loop {
        i -= 1;
        buf[i] = b'0' + (x % 10) as u8;
        x /= 10;
        t!();
        if x == 0 {
            break;
        }
    }
    i -= 1;
    buf[i] = b'E';
    unsafe { write(2, buf.as_ptr().add(i), 24 - i); }
}
#[unsafe(no_mangle)] pub static mut CALLN: u64 = 0;
#[unsafe(no_mangle)] pub static mut CALLLOG: [u64; 128] = [0; 128];
#[inline(never)]
fn clog(tag: u64, a: [u64; 6]) {
    unsafe {
        let n = core::ptr::read_volatile(&raw const CALLN);
        if n < 16 {
            let base = (n * 8) as usize;
            CALLLOG[base] = tag;
            CALLLOG[base + 1] = a[0];
            CALLLOG[base + 2] = a[1];
            CALLLOG[base + 3] = a[2];
            CALLLOG[base + 4] = a[3];
            CALLLOG[base + 5] = a[4];
            CALLLOG[base + 6] = a[5];
        }
        core::ptr::write_volatile(&raw mut CALLN, n + 1);
    }
}
#[inline(never)]
pub fn probe0() -> u64 {
    t!();
    clog(100, [0; 6]);
    7
}
#[inline(never)]
pub fn probe2(a: u64, b: u64) -> u64 {
    t!();
    clog(102, [a, b, 0, 0, 0, 0]);
    a ^ b
}
#[inline(never)]
pub fn probe3(a: i64, b: u32, c: u8) -> u64 {
    t!();
    clog(103, [a as u64, b as u64, c as u64, 0, 0, 0]);
    1
}
#[inline(never)]
pub fn probe6(a: i64, b: i32, c: u16, d: i8, e: bool, f: usize) -> u64 {
    t!();
    clog(106, [a as u64, b as i64 as u64, c as u64, d as i64 as u64, e as u64, f as u64]);
    2
}
#[inline(never)]
fn apply(f: impl Fn(u64) -> u64, x: u64) -> u64 {
    t!();
    let r = f(x);
    r.wrapping_add(1)
}
"#;

#[derive(Clone, Copy, PartialEq)]
enum Kind {
    Plain,
    Rec,
    Generic,
}

struct FnInfo {
    name: String,
    kind: Kind,
    cost: u64,
}

struct G<'a> {
    t: &'a mut Tape,
    out: Vec<String>,
    fns: Vec<FnInfo>, // already generated (callable) functions
    nvars: usize,
    nloops: usize,
    ncl: usize,
    vars: Vec<String>, // in-scope mutable u64 variables
    ro: Vec<String>,   // in-scope read-only atoms (params)
    in_main: bool,
}

impl<'a> G<'a> {
    fn line(&mut self, ind: usize, s: &str) {
        self.out.push(format!("{}{}", "    ".repeat(ind), s));
    }
    fn atom(&mut self) -> String {
        let n = self.vars.len() + self.ro.len();
        if n == 0 || self.t.chance(1, 4) {
            return format!("{}u64", [1u64, 2, 3, 5, 7, 11, 13, 100, 255, 1000, 65537][self.t.choose(11)]);
        }
        let k = self.t.choose(n);
        if k < self.vars.len() { self.vars[k].clone() } else { self.ro[k - self.vars.len()].clone() }
    }
    fn expr(&mut self) -> String {
        let a = self.atom();
        let b = self.atom();
        match self.t.choose(7) {
            0 => format!("{a}.wrapping_add({b})"),
            1 => format!("{a}.wrapping_mul({b}) ^ 0x9e37"),
            2 => format!("{a} ^ ({b} >> 3)"),
            3 => format!("({a} & 0xffff).wrapping_sub({b} & 0xff)"),
            4 => format!("{a}.rotate_left(7).wrapping_add({b})"),
            5 => format!("({a} % 97).wrapping_mul({b} % 89)"),
            _ => a.to_string(),
        }
    }
    fn cond(&mut self) -> String {
        let a = self.atom();
        let b = self.atom();
        match self.t.choose(4) {
            0 => format!("{a} & 1 == 0"),
            1 => format!("{a} % 3 == 1"),
            2 => format!("{a} < {b}"),
            _ => format!("({a} ^ {b}) & 4 != 0"),
        }
    }
    fn target(&mut self, ind: usize) -> String {
        if self.vars.is_empty() || self.t.chance(1, 3) {
            let v = format!("v{}", self.nvars);
            self.nvars += 1;
            self.line(ind, &format!("let mut {v}: u64 = 0;"));
            self.vars.push(v.clone());
            v
        } else {
            self.vars[self.t.choose(self.vars.len())].clone()
        }
    }
    /// Emit statements worth at most `budget` cost units; returns the cost used.
    fn block(&mut self, ind: usize, budget: u64, depth: usize) -> u64 {
        let mut used = 0u64;
        let scope_mark = self.vars.len();
        let nst = self.t.range(1, 5);
        for _ in 0..nst {
            if used + 2 > budget {
                break;
            }
            let left = budget - used;
            let k = self.t.choose(12);
            match k {
                0 | 1 => {
                    let v = self.target(ind);
                    let e = self.expr();
                    self.line(ind, &format!("{v} = {e};"));
                    used += 1;
                }
                2 => {
                    self.line(ind, "t!();");
                    used += 1;
                }
                3 if depth < 3 && left > 8 => {
                    let c = self.cond();
                    self.line(ind, &format!("if {c} {{"));
                    let a = self.block(ind + 1, left / 2, depth + 1);
                    let b = if self.t.chance(1, 2) {
                        self.line(ind, "} else {");
                        self.block(ind + 1, left / 2, depth + 1)
                    } else {
                        0
                    };
                    self.line(ind, "}");
                    used += 1 + a.max(b);
                }
                4 if depth < 2 && left > 12 => {
                    let n = self.t.range(1, 4) as u64;
                    let i = format!("i{}", self.nloops);
                    self.nloops += 1;
                    self.line(ind, &format!("let mut {i}: u64 = 0;"));
                    self.line(ind, &format!("while {i} < {n} {{"));
                    self.line(ind + 1, "t!();");
                    self.ro.push(i.clone());
                    let b = self.block(ind + 1, (left / n).saturating_sub(3), depth + 1);
                    self.ro.pop();
                    self.line(ind + 1, &format!("{i} += 1;"));
                    self.line(ind, "}");
                    used += n * (b + 3) + 1;
                }
                5 | 6 | 7 if !self.fns.is_empty() => {
                    let cands: Vec<usize> = (0..self.fns.len()).filter(|&j| self.fns[j].cost + 3 <= left).collect();
                    if cands.is_empty() {
                        continue;
                    }
                    let j = cands[self.t.choose(cands.len())];
                    let (name, kind, cost) = (self.fns[j].name.clone(), self.fns[j].kind, self.fns[j].cost);
                    let v = self.target(ind);
                    let a = self.atom();
                    let b = self.atom();
                    match kind {
                        Kind::Plain => self.line(ind, &format!("{v} = {name}({a}, {b});")),
                        Kind::Rec => {
                            self.line(ind, &format!("{v} = {name}({a} % REC_{name}, {b});"));
                        }
                        Kind::Generic => {
                            let ty = ["u8", "u16", "u32", "u64"][self.t.choose(4)];
                            self.line(ind, &format!("{v} = {name}::<{ty}>({a} as {ty}, {b});"));
                        }
                    }
                    used += cost + 3;
                }
                8 if left > 8 => {
                    // closure, called directly or through `apply`
                    let c = format!("c{}", self.ncl);
                    self.ncl += 1;
                    let cap = self.atom();
                    self.line(ind, &format!("let {c} = |x: u64| {{"));
                    self.line(ind + 1, "t!();");
                    self.line(ind + 1, &format!("x.wrapping_mul(3) ^ {cap}"));
                    self.line(ind, "};");
                    let v = self.target(ind);
                    let a = self.atom();
                    if self.t.chance(1, 2) {
                        self.line(ind, &format!("{v} = apply({c}, {a});"));
                    } else {
                        self.line(ind, &format!("{v} = {c}({a});"));
                    }
                    used += 8;
                }
                9 if left > 30 => {
                    let a = self.atom();
                    if self.t.chance(1, 3) {
                        self.line(ind, &format!("emit_err({a} % 100000);"));
                    } else {
                        self.line(ind, &format!("emit({a} % 100000);"));
                    }
                    used += 30;
                }
                10 if depth > 0 && !self.in_main && self.t.chance(1, 3) => {
                    let a = self.atom();
                    self.line(ind, &format!("return {a};"));
                    used += 1;
                    break;
                }
                _ => {
                    let v = self.target(ind);
                    let e = self.expr();
                    self.line(ind, &format!("{v} = {e};"));
                    used += 1;
                }
            }
        }
        self.vars.truncate(scope_mark);
        used
    }

    fn function(&mut self, idx: usize, budget: u64) {
        let kind = match self.t.choose(6) {
            0 => Kind::Rec,
            1 => Kind::Generic,
            _ => Kind::Plain,
        };
        let name = format!("f{idx}");
        self.vars.clear();
        self.ro.clear();
        self.nvars = 0;
        self.nloops = 0;
        self.ncl = 0;
        self.line(0, "#[inline(never)]");
        let cost;
        match kind {
            Kind::Plain => {
                self.line(0, &format!("fn {name}(a: u64, b: u64) -> u64 {{"));
                self.line(1, "t!();");
                self.ro = vec!["a".into(), "b".into()];
                self.line(1, "let mut r: u64 = a ^ b;");
                self.vars.push("r".into());
                let c = self.block(1, budget, 0);
                let e = self.expr();
                self.line(1, &format!("r = r.wrapping_add({e});"));
                self.line(1, "r");
                self.line(0, "}");
                cost = c + 4;
            }
            Kind::Rec => {
                let depth = self.t.range(1, 5) as u64;
                self.out.insert(self.out.len() - 1, format!("const REC_{name}: u64 = {};", depth + 1));
                self.line(0, &format!("fn {name}(n: u64, a: u64) -> u64 {{"));
                self.line(1, "t!();");
                self.line(1, "if n == 0 {");
                self.line(2, "return a ^ 0x55;");
                self.line(1, "}");
                self.ro = vec!["n".into(), "a".into()];
                self.line(1, &format!("let mut r: u64 = {name}(n - 1, a.wrapping_add(n));"));
                self.vars.push("r".into());
                let per = (budget / (depth + 1)).max(3);
                let c = self.block(1, per, 1);
                self.line(1, "t!();");
                self.line(1, "r.wrapping_mul(31).wrapping_add(n)");
                self.line(0, "}");
                cost = (c + 6) * (depth + 1);
            }
            Kind::Generic => {
                self.line(0, &format!("fn {name}<T: Copy + Into<u64>>(x: T, k: u64) -> u64 {{"));
                self.line(1, "t!();");
                self.line(1, "let mut r: u64 = x.into();");
                self.ro = vec!["k".into()];
                self.vars.push("r".into());
                let c = self.block(1, budget, 0);
                self.line(1, "r = r.wrapping_mul(k | 1);");
                self.line(1, "r");
                self.line(0, "}");
                cost = c + 5;
            }
        }
        self.fns.push(FnInfo { name, kind, cost });
    }
}

/// Generate a micro-family program.  `size` scales the dynamic cost (1 = small).
pub fn gen_micro(t: &mut Tape, size: u64) -> (String, Vec<String>) {
    let nfn = t.range(2, 6);
    let mut g = G { t, out: vec![], fns: vec![], nvars: 0, nloops: 0, ncl: 0, vars: vec![], ro: vec![], in_main: false };
    for l in PRELUDE.lines() {
        g.out.push(l.to_string());
    }
    // callees first, so that costs are known: f{nfn-1} is generated first and can call nothing
    for k in (0..nfn).rev() {
        let budget = 20 + 25 * size * (nfn - k) as u64 / 2;
        g.function(k, budget);
    }
    g.vars.clear();
    g.ro.clear();
    g.nvars = 0;
    g.nloops = 0;
    g.ncl = 0;
    g.in_main = true;
    g.line(0, "#[unsafe(no_mangle)]");
    g.line(0, "pub extern \"C\" fn main(_argc: i32, _argv: *const *const u8) -> i32 {");
    g.line(1, "t!();");
    // arguments derived from argc (= 1, opaque to the optimiser): no interprocedural constant
    // propagation into the probes, which the debugger later calls with other arguments
    g.line(1, "let z = _argc as i64;");
    g.line(1, "let mut acc: u64 = probe0() + probe2(z as u64, (z + 1) as u64) + probe3(-z, (z * 2) as u32, (z * 3) as u8) + probe6(-z, (-2 * z) as i32, (z * 3) as u16, (-4 * z) as i8, z == 1, (z * 5) as usize);");
    g.vars.push("acc".into());
    let total = 400 * size;
    let mut used = 0;
    let mut rounds = 0;
    while used + 10 < total && rounds < 4 {
        used += g.block(1, total - used, 0);
        rounds += 1;
        // make sure at least some calls exist
        let j = g.t.choose(g.fns.len());
        let (name, kind, cost) = (g.fns[j].name.clone(), g.fns[j].kind, g.fns[j].cost);
        if used + cost < total + 200 {
            match kind {
                Kind::Plain => g.line(1, &format!("acc = acc.wrapping_add({name}(acc, {}));", rounds + 2)),
                Kind::Rec => g.line(1, &format!("acc = acc.wrapping_add({name}(acc % REC_{name}, {}));", rounds + 2)),
                Kind::Generic => g.line(1, &format!("acc = acc.wrapping_add({name}::<u32>(acc as u32, {}));", rounds + 2)),
            }
            used += cost + 3;
        }
    }
    g.line(1, "emit(acc % 1000000);");
    g.line(1, "(acc % 251) as i32");
    g.line(0, "}");
    let mut names: Vec<String> = g.fns.iter().map(|f| f.name.clone()).collect();
    names.push("main".into());
    names.push("emit".into());
    (g.out.join("\n") + "\n", names)
}

pub fn micro_program(t: &mut Tape) -> ProgramSpec {
    let toolchain = ["1.89", "stable", "nightly"][t.choose(3)].to_string();
    let opt_level = [0u8, 0, 1][t.choose(3)];
    let size = t.range(1, 3) as u64;
    let (src, functions) = gen_micro(t, size);
    ProgramSpec { family: "micro".into(), toolchain, opt_level, pie: true, src, functions, extra_args: vec![] }
}

//! Per-property check configurations.

use crate::orch::{self, CheckCfg, scratch_dir};
use crate::progen;
use crate::rng::{self, Tape};
use crate::worker::WorkerSpec;
use serde_json::{Value, json};
use std::collections::BTreeMap;
use std::time::Duration;

pub fn seed_from_env() -> u64 {
    std::env::var("VERIF_SEED").ok().and_then(|s| s.parse().ok()).unwrap_or(1)
}

fn real_stub_core() -> Value {
    json!({
        "real": ["bugstalker::debugger (breakpoints, tracer, stepping, unwinder, DWARF reader)", "Linux kernel ptrace/wait/signals (behind the libc seam)", "CPU executing generated debuggees", "rustc 1.89 / stable / nightly output (DWARF, code)"],
        "simulated_or_pinned": ["user (seeded workload generator)", "pids/tids (PID namespace per run)", "HashMap seeds (getrandom seam)", "environment / initial stack (fixed env)", "rayon pool size = 1"],
        "stub": ["rustyline/TUI not involved (public Debugger API driven directly)"],
        "independent_references": ["reference single-step tracer (no BugStalker code)", "llvm-dwarfdump line table", "/proc/<pid>/mem, PTRACE_GETREGS read by the harness"]
    })
}

pub fn layer_a_check(prop: &str, tier: &str) -> i32 {
    let seed = seed_from_env();
    let (programs, histories) = match (prop, tier) {
        (_, "quick") => (8, 20),
        (_, _) => (40, 32),
    };
    let programs = std::env::var("BSSIM_PROGRAMS").ok().and_then(|s| s.parse().ok()).unwrap_or(programs);
    let histories = std::env::var("BSSIM_HISTORIES").ok().and_then(|s| s.parse().ok()).unwrap_or(histories);
    let specs: Vec<progen::ProgramSpec> = (0..programs)
        .map(|k| {
            let mut t = Tape::record(rng::derive(seed, "prog.micro", k as u64));
            let mut p = progen::micro_program(&mut t);
            if prop == "C18" {
                // the same programs, linked at a fixed address (ET_EXEC, no relocation)
                p.pie = false;
            }
            p
        })
        .collect();
    let t0 = std::time::Instant::now();
    let corpus = orch::build_corpus(specs, true);
    if corpus.progs.is_empty() {
        eprintln!("HARNESS-ERROR empty corpus");
        return 2;
    }
    let mut tool = BTreeMap::<String, u64>::new();
    for (p, _) in &corpus.progs {
        *tool.entry(format!("{}-O{}", p.toolchain, p.opt_level)).or_default() += 1;
    }
    let corpus_info = json!({"family": "micro", "programs": corpus.progs.len(), "rejected": corpus.rejected, "by_toolchain_opt": tool, "build_and_reference_trace_s": t0.elapsed().as_secs_f64()});
    let dir = scratch_dir(prop);
    let mut ws = vec![];
    let mut idx = 0u64;
    let mut params: BTreeMap<String, Value> = BTreeMap::new();
    params.insert("max_ops".into(), json!(if tier == "quick" { 40 } else { 60 }));
    if matches!(prop, "C02" | "C11" | "C14" | "C16" | "C15" | "C18") {
        params.insert("allow_restart".into(), json!(true));
    }
    for (p, b) in &corpus.progs {
        for _ in 0..histories {
            ws.push(WorkerSpec {
                property: prop.into(),
                mode: "layer_a".into(),
                seed: rng::derive(seed, prop, idx),
                run_idx: idx,
                program: p.clone(),
                bin: b.bin.to_string_lossy().into(),
                src_file: b.src_file.clone(),
                tape: None,
                out: dir.join(format!("r{idx}.json")).to_string_lossy().into(),
                params: params.clone(),
            });
            idx += 1;
        }
    }
    let (rule, probes, level): (&str, Vec<&str>, &str) = match prop {
        "C01" => ("one case = one (generated program, generated history of add/remove/continue/stepi ops) executed by the real debugger and compared stop by stop with RefExec.cont(B); distinct = distinct canonical event log; non-trivial = at least 3 operations executed", vec!["c01.expected_bp_stop", "c01.expected_exit", "c01.rearrival_hit"], "exploration"),
        "C02" => ("one case = one (program, full command history) with the text ledger compared after every operation, every text POKE classified, and final output/exit status compared with the native run; distinct = distinct canonical event log; non-trivial = at least 3 operations", vec!["c02.ledger_checked", "c02.text_pokes", "c02.output_checked"], "exploration"),
        "C03" => ("one case = one (program, history of stepi/step/next/finish from random stops) checked against the admissible-stop inequalities over the reference trace and the llvm-dwarfdump line table; distinct = distinct canonical event log; non-trivial = at least 3 operations", vec!["c03.stepi_checked", "c03.step_checked", "c03.next_checked", "c03.finish_checked"], "exploration"),
        "C05" => ("one case = one (program, history) where at every stop inside traced code the backtrace, CFA and return address are compared with the shadow stack of the reference tracer; distinct = distinct canonical event log; non-trivial = at least 3 operations", vec!["c05.backtrace_checked", "c05.frame_info_checked", "c05.recursive_stack"], "exploration"),
        "C11" => ("one case = one (program, history ending in drop / detach / restart / exit at a stop of some kind); after teardown the namespace's process table, the text and debug registers at the moment of PTRACE_DETACH, the completion of a detached process, breakpoints across restart and reported exit codes are checked; distinct = distinct canonical event log; non-trivial = at least 3 operations", vec!["c11.drop_checked", "c11.detach_checked", "c11.restart_checked", "c11.drop_in_state_stopped", "c11.drop_in_state_exited"], "exploration"),
        "C14" => ("one case = one (program, history of watchpoint add/remove by number/address interleaved with continue/finish/restart); after every operation DR0-3/DR7 of the tracee are read by the harness (PTRACE_PEEKUSER) and compared with a 4-slot model, refusals must be side-effect free; distinct = distinct canonical event log; non-trivial = at least 3 operations", vec!["c14.add_checked", "c14.dr_image_checked_nonempty", "c14.duplicate_refused", "c14.fifth_refused"], "exploration"),
        "C15" => ("one case = one (program, history) in which memory reads (any alignment, around mapping/page/word boundaries, lengths 0..3 pages), one-word writes (verified against a byte mirror of the mapping and its neighbours, then restored), register write/read-back (all other registers compared through PTRACE_GETREGS) and function disassembly with breakpoints armed inside (instruction boundaries vs llvm-objdump of the file) are interleaved with execution; distinct = distinct canonical event log; non-trivial = at least 3 operations", vec!["c15.read_ok_compared", "c15.read_fault_reported", "c15.write_ok", "c15.write_fault_reported", "c15.reg_roundtrip_ok", "c15.disasm_checked", "c15.disasm_with_breakpoints_inside"], "exploration"),
        "C18" => ("non-PIE leg: one case = one (generated program linked as a non-PIE executable, history of add/remove/continue/step/finish ops); every oracle of C01 (stops = projection of the reference execution), C02 (text ledger) and C05 (backtrace = shadow stack) applies unchanged with load base 0; their violations count for C18 here", vec!["c01.expected_bp_stop", "c05.backtrace_checked", "c02.ledger_checked"], "exploration"),
        "C16" => ("one case = one (program, history with injected calls of 0/2/3/6-parameter functions with boundary literals and uncallable requests at random stops); registers, maps, text, position and the callee's own argument log are compared before/after; distinct = distinct canonical event log; non-trivial = at least 3 operations", vec!["c16.call_checked", "c16.call_succeeded", "c16.bad_call_checked"], "exploration"),
        _ => ("layer A run", vec![], "exploration"),
    };
    let cfg = CheckCfg {
        prop: prop.into(),
        tier: tier.into(),
        seed,
        mode: "layer_a".into(),
        programs: corpus.progs.len(),
        histories,
        det_pairs: if tier == "quick" { 16 } else { 64 },
        timeout: Duration::from_secs(90),
        params,
        level: level.into(),
        rule: rule.into(),
        assumptions: vec![
            "the reference tracer (PTRACE_SINGLESTEP, call/ret recognition by stack discipline) records the true execution of the deterministic debuggee".into(),
            "the kernel's ptrace/procfs behave as documented; ADDR_NO_RANDOMIZE + fixed environment make the debugged run identical to the reference run".into(),
            "llvm-dwarfdump decodes the line table correctly".into(),
            "which addresses a line/function request denotes is taken from the debugger's own answer (that is C04, not re-judged here)".into(),
        ],
        real_stub: real_stub_core(),
        required_probes: probes.into_iter().map(String::from).collect(),
        budget: Duration::from_secs(600),
    };
    orch::run_check(cfg, ws, corpus_info)
}

pub fn dap_check(prop: &str, tier: &str) -> i32 {
    let seed = seed_from_env();
    let (programs, histories) = if tier == "quick" { (5, 20) } else { (20, 36) };
    let programs = std::env::var("BSSIM_PROGRAMS").ok().and_then(|s| s.parse().ok()).unwrap_or(programs);
    let histories = std::env::var("BSSIM_HISTORIES").ok().and_then(|s| s.parse().ok()).unwrap_or(histories);
    let specs: Vec<progen::ProgramSpec> = (0..programs)
        .map(|k| {
            let mut t = Tape::record(rng::derive(seed, "prog.micro", k as u64));
            progen::micro_program(&mut t)
        })
        .collect();
    let corpus = orch::build_corpus(specs, true);
    if corpus.progs.is_empty() {
        eprintln!("HARNESS-ERROR empty corpus");
        return 2;
    }
    if prop == "C13" {
        // what each request denotes, asked of the core once per binary in a process of its own
        let jobs: Vec<(String, String, Vec<String>)> = corpus.progs.iter().map(|(p, b)| (b.bin.to_string_lossy().to_string(), b.src_file.clone(), p.functions.clone())).collect();
        let res = orch::parallel(jobs, orch::nworkers(), |(bin, src, fns)| {
            let st = std::process::Command::new(std::env::current_exe().unwrap()).arg("denote").arg(&bin).arg(&src).args(&fns).status();
            st.map(|s| s.success()).unwrap_or(false)
        });
        if res.iter().any(|ok| !ok) {
            eprintln!("HARNESS-ERROR denotation of the corpus failed");
            return 2;
        }
    }
    let corpus_info = json!({"family": "micro (stdout + stderr lines)", "programs": corpus.progs.len(), "rejected": corpus.rejected});
    let dir = scratch_dir(prop);
    let mut ws = vec![];
    let mut idx = 0u64;
    let mut params: BTreeMap<String, Value> = BTreeMap::new();
    params.insert("max_requests".into(), json!(if tier == "quick" { 22 } else { 30 }));
    if prop == "C13" || prop == "C15" {
        params.insert("session_first".into(), json!(true));
    }
    if prop == "C15" {
        params.insert("max_requests".into(), json!(40));
    }
    for (p, b) in &corpus.progs {
        for _ in 0..histories {
            ws.push(WorkerSpec { property: prop.into(), mode: "dap".into(), seed: rng::derive(seed, prop, idx), run_idx: idx, program: p.clone(), bin: b.bin.to_string_lossy().into(), src_file: b.src_file.clone(), tape: None, out: dir.join(format!("r{idx}.json")).to_string_lossy().into(), params: params.clone() });
            idx += 1;
        }
    }
    let cfg = CheckCfg {
        prop: prop.into(),
        tier: tier.into(),
        seed,
        mode: "dap".into(),
        programs: corpus.progs.len(),
        histories,
        det_pairs: if tier == "quick" { 16 } else { 64 },
        timeout: Duration::from_secs(90),
        params,
        level: "exploration".into(),
        rule: if prop == "C08" { "DAP leg: one case = one (program, adaptive request history in which every second request has its arguments mutated: null, empty, wrong type, huge/negative numbers, arrays, nested objects, strings) against the real DebugSession; the only violations are a panic of the adapter or DebugSession::run returning an error while the client is still connected".to_string() } else if prop == "C15" { "DAP leg: one case = one (program, history of readMemory / writeMemory (1..40 bytes, any alignment, data and stack) / stackTrace / scopes / variables / setVariable / setExpression at breakpoint stops); every read is compared with /proc/<pid>/mem, every write with a byte mirror of the executable's data and the stack taken before the request (exactly [a, a+n) may change), set values must be shown by the response and change no more than the variable's own bytes; every write is undone by the harness".to_string() } else if prop == "C13" { "one case = one (program, history of setBreakpoints / setFunctionBreakpoints / setInstructionBreakpoints with condition, hitCondition or logMessage, before start, after start and around restart, interleaved with configurationDone / continue / restart); which addresses a request denotes is asked of the core (twin Debugger), where the program must stop next comes from the reference execution, where it really is from PTRACE_GETREGS + TICK, which addresses are patched from the process text; distinct = distinct canonical wire log; non-trivial = at least 3 requests".to_string() } else { "one case = one (program, adaptive request history with argument mutation, interleaving of the session thread and the stdout/stderr forwarder threads chosen at the H1 schedule points from the run's tape); the recorded wire log is checked for one response per request, seq = 1,2,3.. in wire order, event uniqueness/causality and silence after `terminated`; distinct = distinct canonical wire log + schedule; non-trivial = at least 3 requests".to_string() },
        assumptions: vec![
            "schedule points sit outside every critical section, so the explored interleavings are exactly those distinguishable on the wire".into(),
            "the simulated transport never blocks; in the real adapter the session holds the transport mutex while waiting for the client, which admits the same wire orders".into(),
            "debuggee output is written in whole lines (atomic pipe writes), which makes forwarder enabledness a function of FIONREAD".into(),
        ],
        real_stub: json!({
            "real": ["bugstalker::dap::yadap::session::DebugSession (dispatch, handlers, event queue)", "the two output-forwarder threads", "bugstalker::debugger under it, real kernel, real debuggee"],
            "simulated": ["DAP client (seeded adaptive generator)", "transport (in-memory DapTransport)", "thread scheduler at hook points (tape-driven)"],
            "stub": ["TCP/stdio framing (Content-Length) not exercised"]
        }),
        required_probes: if prop == "C08" { vec!["c12.requests".into(), "c12.error_responses".into()] } else if prop == "C15" { vec!["c15.dap_read_ok_compared".into(), "c15.dap_write_ok".into(), "c15.dap_set_ok".into()] } else if prop == "C13" { vec!["c13.set_requests_checked".into(), "c13.runs_checked".into(), "c13.expected_stop".into(), "c13.expected_exit".into(), "c13.sets_before_start".into(), "c13.sets_after_start".into(), "c13.breakpoints_with_options".into(), "c13.multi_location_breakpoints".into(), "c13.text_checked_after_set".into()] } else { vec!["c12.requests".into(), "c12.output_events".into(), "c12.decisions_with_choice".into(), "c12.forwarder_released_between_seq_and_lock_with_rivals".into(), "c12.error_responses".into(), "c12.stopped_events".into()] },
        budget: Duration::from_secs(600),
    };
    orch::run_check(cfg, ws, corpus_info)
}

pub fn layer_b_check(prop: &str, tier: &str) -> i32 {
    let seed = seed_from_env();
    let histories = if tier == "quick" { if matches!(prop, "C11" | "C14") { 16 } else { 40 } } else { 200 };
    let histories = std::env::var("BSSIM_HISTORIES").ok().and_then(|s| s.parse().ok()).unwrap_or(histories);
    // one interpreter per (toolchain, opt-level)
    let mut specs = vec![];
    for tc in ["1.89", "stable", "nightly"] {
        for opt in [0u8, 1] {
            let mut p = crate::mtprog::mt_program(&mut Tape::record(1));
            p.toolchain = tc.into();
            p.opt_level = opt;
            specs.push(p);
        }
    }
    let corpus = orch::build_corpus(specs, false);
    if corpus.progs.is_empty() {
        eprintln!("HARNESS-ERROR empty corpus");
        return 2;
    }
    let corpus_info = json!({"family": "mt (gated interpreter debuggee, one binary per toolchain/opt-level)", "programs": corpus.progs.len(), "rejected": corpus.rejected});
    let dir = scratch_dir(prop);
    let mut ws = vec![];
    let mut idx = 0u64;
    let mut params: BTreeMap<String, Value> = BTreeMap::new();
    params.insert("max_ops".into(), json!(if tier == "quick" { 40 } else { 60 }));
    params.insert("max_threads".into(), json!(if tier == "quick" { 8 } else { 24 }));
    for (p, b) in &corpus.progs {
        for _ in 0..histories {
            ws.push(WorkerSpec { property: prop.into(), mode: "layer_b".into(), seed: rng::derive(seed, prop, idx), run_idx: idx, program: p.clone(), bin: b.bin.to_string_lossy().into(), src_file: b.src_file.clone(), tape: None, out: dir.join(format!("r{idx}.json")).to_string_lossy().into(), params: params.clone() });
            idx += 1;
        }
    }
    let (rule, probes): (&str, Vec<&str>) = match prop {
        "C09" => ("one case = one (thread scripts for up to N gated debuggee threads, user history of arm/disarm/continue/stepi/watch, schedule of advance/deliver/race/signal decisions from the run's tape); at every reported stop every live task must be in a ptrace stop and equal thread_state(), every scripted arrival at an armed site must be reported exactly once for the arriving thread, and at exit the non-idempotent site counters must equal the scripted executions; distinct = distinct canonical decision+event log; non-trivial = at least 3 operations", vec!["c09.stops_checked", "c09.arrivals", "c09.breakpoint_reports", "c09.sibling_advanced_during_group_stop", "c09.deliver_choice_among_several", "c09.spawns", "c09.thread_exits", "c09.completed_runs"]),
        "C11" => ("Layer B leg: one case = one (gated multi-thread debuggee, user history of arm (by address / by function name) / continue / stepi, ended by detach at a stop of some kind); at the instant of PTRACE_DETACH the process text must equal the file and no thread may carry an enabled debug register; afterwards the harness alone releases the gates and the process must run to its scripted end (site counters, output, exit status)", vec!["c11.mt_detach", "c11.mt_detach_clean", "c11.mt_detached_process_completed", "c09.armed_by_function_name"]),
        "C14" => ("Layer B leg: one case = one (gated multi-thread debuggee with threads created and exiting at scripted points, history of watchpoint add/remove interleaved with continue); at every reported stop every live thread's DR0-3/DR7 (PTRACE_PEEKUSER by the harness) must encode exactly the active watchpoints", vec!["c14.thread_dr_image_checked", "c14.mt_watch_added", "c09.spawns"]),
        _ => ("one case = one (thread scripts with self-raised signals, external signals sent by the simulator to running and to stopped threads at seam decision points incl. right before single steps, user history); sent = handled (per-signal handler counters, SIGINT never handled) = reported (one stop per non-quiet signal naming the receiving thread, none for quiet ones); distinct = distinct canonical decision+event log; non-trivial = at least 3 operations", vec!["c10.signals_sent", "c10.signal_reports", "c10.sent_to_running_thread", "c10.sent_to_stopped_thread", "c10.self_raised", "c10.injections_seen", "c09.completed_runs"]),
    };
    let cfg = CheckCfg {
        prop: prop.into(),
        tier: tier.into(),
        seed,
        mode: "layer_b".into(),
        programs: corpus.progs.len(),
        histories,
        det_pairs: if tier == "quick" { 24 } else { 96 },
        timeout: Duration::from_secs(90),
        params,
        level: "exploration".into(),
        rule: rule.into(),
        assumptions: vec![
            "debuggee threads block only at gates (futex on a shared control block); quiescence (every task in a ptrace stop, dead, or asleep at its gate with no interrupt or signal in flight) is reached before every decision, so the set of pending events is a function of the history".into(),
            "the kernel may deliver pending wait events of different tasks in any order; waitpid(-1) is realised as wait4(chosen tid)".into(),
            "PID namespace + getrandom seam make pids and HashMap orders a function of the history".into(),
            "hardware watchpoints never fire on this host: only the register image is checked (C14)".into(),
        ],
        real_stub: json!({
            "real": ["bugstalker::debugger (tracer, group stop, breakpoints, signal queue)", "Linux kernel ptrace/wait/signals/clone/exit (behind the libc seam)", "debuggee threads (real pthreads, real INT3 traps, real signals)"],
            "simulated": ["thread scheduler (gates released one at a time by the tape)", "event arbitration of waitpid(-1)", "signal sender", "user history"],
            "pinned": ["pids/tids (PID namespace)", "HashMap seeds (getrandom)", "environment"],
            "stub": ["none of the debugger; the debuggee is an interpreter of scripted actions, not an arbitrary program"]
        }),
        required_probes: probes.into_iter().map(String::from).collect(),
        budget: Duration::from_secs(600),
    };
    orch::run_check(cfg, ws, corpus_info)
}

pub fn session_check(prop: &str, tier: &str) -> i32 {
    let seed = seed_from_env();
    let histories = if tier == "quick" { 14 } else { 60 };
    let histories = std::env::var("BSSIM_HISTORIES").ok().and_then(|s| s.parse().ok()).unwrap_or(histories);
    let specs: Vec<progen::ProgramSpec> = ["1.89", "stable", "nightly"].iter().map(|tc| crate::session::arena_program(tc)).collect();
    let corpus = orch::build_corpus(specs, false);
    if corpus.progs.is_empty() {
        eprintln!("HARNESS-ERROR empty corpus");
        return 2;
    }
    let corpus_info = json!({"family": "arena (std program: integers, floats, tuples, structs, enums, arrays, Vec, String, slices, HashMap/HashSet, BTreeMap/BTreeSet, VecDeque, Box, Rc<RefCell>, Arc, Option, raw pointers, union, ZST, closure)", "programs": corpus.progs.len(), "rejected": corpus.rejected});
    let dir = scratch_dir(prop);
    let mut ws = vec![];
    let mut idx = 0u64;
    let mut params: BTreeMap<String, Value> = BTreeMap::new();
    params.insert("max_ops".into(), json!(if tier == "quick" { 50 } else { 80 }));
    for (p, b) in &corpus.progs {
        for _ in 0..histories {
            ws.push(WorkerSpec { property: prop.into(), mode: "session".into(), seed: rng::derive(seed, prop, idx), run_idx: idx, program: p.clone(), bin: b.bin.to_string_lossy().into(), src_file: b.src_file.clone(), tape: None, out: dir.join(format!("r{idx}.json")).to_string_lossy().into(), params: params.clone() });
            idx += 1;
        }
    }
    let cfg = CheckCfg {
        prop: prop.into(),
        tier: tier.into(),
        seed,
        mode: "session".into(),
        programs: corpus.progs.len(),
        histories,
        det_pairs: if tier == "quick" { 16 } else { 64 },
        timeout: Duration::from_secs(120),
        params,
        level: "fault_enumeration".into(),
        rule: "one case = one console-level session of 20-70 command lines (grammar-derived print/arg/vard expressions with field, index, slice, deref, address, canonic and pointer-cast operators over ~35 variables of every supported type, frame/thread/memory/register/source/symbol/break/watch/call/async commands, and mutated lines: huge numbers, unicode, truncation, repetition) parsed by the crate's Command::parse and executed by the crate's handlers and renderers against a debugger stopped in the arena debuggee, while the harness overwrites the debuggee's frame and heap with hostile patterns between commands and may SIGKILL it; a panic, a hang, a probe that no longer answers or a panic in Drop is a violation; distinct = distinct canonical session log; non-trivial = at least 3 commands".into(),
        assumptions: vec![
            "a panic anywhere in the worker is caught by the panic hook and reported with the command line being executed; a hang by the orchestrator's wall-clock backstop (reproduced by a second run before it is reported)".into(),
            "errors are the expected outcome of hostile input and are never violations".into(),
        ],
        real_stub: json!({
            "real": ["ui::command::parser (Command::parse, expression parser)", "ui::command::*::Handler (print, memory, register, backtrace, frame, thread, break, watch, call, symbol, sharedlib)", "ui::generic::variable::render_variable", "bugstalker::debugger (DQE executor, value parser, std-collection specialisations, unwinder)", "real kernel, real debuggee memory"],
            "simulated": ["the user (seeded command-line generator with mutation)", "memory corruption of the debuggee (harness writes through /proc/<pid>/mem)", "external SIGKILL at a seeded command index"],
            "stub": ["rustyline editor / TUI / console printing (results are rendered to strings and dropped)", "continue/run commands are not issued (the session stays at one stop)"]
        }),
        required_probes: vec!["c08.commands_parsed".into(), "c08.parse_errors".into(), "c08.commands_ok".into(), "c08.commands_err".into(), "c08.fault_memory_poisoned".into(), "c08.fault_debuggee_killed".into(), "c08.sessions_completed".into()],
        budget: Duration::from_secs(600),
    };
    orch::run_check(cfg, ws, corpus_info)
}

pub fn lib_check(prop: &str, tier: &str) -> i32 {
    let seed = seed_from_env();
    let (drivers, histories) = if tier == "quick" { (3, 6) } else { (8, 30) };
    let histories = std::env::var("BSSIM_HISTORIES").ok().and_then(|s| s.parse().ok()).unwrap_or(histories);
    let corpus = crate::libs::corpus(seed, drivers);
    if corpus.is_empty() {
        eprintln!("HARNESS-ERROR empty library corpus");
        return 2;
    }
    let corpus_info = json!({"family": "lib (driver executable + cdylib linked at start-up + cdylib loaded/unloaded/reloaded with dlopen)", "programs": corpus.len()});
    let dir = scratch_dir(prop);
    let mut ws = vec![];
    let mut idx = 0u64;
    for (p, b, liba, libb, counts) in &corpus {
        for _ in 0..histories {
            let mut params: BTreeMap<String, Value> = BTreeMap::new();
            params.insert("liba".into(), json!(liba));
            params.insert("libb".into(), json!(libb));
            params.insert("counts".into(), json!(counts));
            ws.push(WorkerSpec { property: prop.into(), mode: "lib".into(), seed: rng::derive(seed, "C18.lib", idx), run_idx: 100_000 + idx, program: p.clone(), bin: b.bin.to_string_lossy().into(), src_file: b.src_file.clone(), tape: None, out: dir.join(format!("l{idx}.json")).to_string_lossy().into(), params });
            idx += 1;
        }
    }
    let cfg = CheckCfg {
        prop: prop.into(),
        tier: tier.into(),
        seed,
        mode: "lib".into(),
        programs: corpus.len(),
        histories,
        det_pairs: if tier == "quick" { 12 } else { 48 },
        timeout: Duration::from_secs(90),
        params: BTreeMap::new(),
        level: "exploration".into(),
        rule: "library leg: one case = one (driver with seeded call counts into a start-up library and a dlopen/dlclose/dlopen library, user plan: which breakpoints before start (the dlopen library's as deferred), which at the first stop, finish out of library code, restart); every stop must be in the function the driver's call order says, at the real pc, inside library base (/proc/maps) + ELF symbol; the backtrace from library code must reach the driver's frames; shared_libs() must equal the file-backed executable objects of /proc/maps at every stop".into(),
        assumptions: vec!["library bases are read from /proc/<pid>/maps, function ranges from the ELF symbol tables (independent of the debugger's DWARF reader)".into()],
        real_stub: real_stub_core(),
        required_probes: vec!["c18.stops_in_startup_library".into(), "c18.stops_in_dlopened_library".into(), "c18.deferred_requested".into(), "c18.sharedlib_list_checked".into(), "c18.backtrace_from_library_checked".into()],
        budget: Duration::from_secs(600),
    };
    orch::run_check(cfg, ws, corpus_info)
}

/// Run two legs of one property and merge their evidence into /verif/evidence/<prop>.json.
fn two_legs(prop: &str, tier: &str, second: fn(&str, &str) -> i32, name: &str) -> i32 {
    two_legs_of(prop, tier, layer_a_check, second, name)
}

fn two_legs_of(prop: &str, tier: &str, first: fn(&str, &str) -> i32, second: fn(&str, &str) -> i32, name: &str) -> i32 {
    let path = format!("{}/evidence/{prop}.json", orch::VERIF);
    let a = first(prop, tier);
    let ev_a: Value = std::fs::read_to_string(&path).ok().and_then(|s| serde_json::from_str(&s).ok()).unwrap_or(json!({}));
    let b = second(prop, tier);
    let ev_b: Value = std::fs::read_to_string(&path).ok().and_then(|s| serde_json::from_str(&s).ok()).unwrap_or(json!({}));
    let mut m = ev_a.clone();
    let num = |v: &Value, k: &str| v["coverage"][k].as_u64().unwrap_or(0);
    m["coverage"]["evaluations"] = json!(num(&ev_a, "evaluations") + num(&ev_b, "evaluations"));
    m["coverage"]["distinct_nontrivial"] = json!(num(&ev_a, "distinct_nontrivial") + num(&ev_b, "distinct_nontrivial"));
    m["coverage"]["rule"] = json!(format!("{} || {}", ev_a["coverage"]["rule"].as_str().unwrap_or(""), ev_b["coverage"]["rule"].as_str().unwrap_or("")));
    m["coverage"][name] = ev_b["coverage"].clone();
    m["violations"] = json!(ev_a["violations"].as_u64().unwrap_or(0) + ev_b["violations"].as_u64().unwrap_or(0));
    m["wall_s"] = json!(ev_a["wall_s"].as_f64().unwrap_or(0.0) + ev_b["wall_s"].as_f64().unwrap_or(0.0));
    let mut assumptions: Vec<Value> = ev_a["assumptions"].as_array().cloned().unwrap_or_default();
    for x in ev_b["assumptions"].as_array().cloned().unwrap_or_default() {
        if !assumptions.contains(&x) {
            assumptions.push(x);
        }
    }
    m["assumptions"] = json!(assumptions);
    let _ = std::fs::write(&path, serde_json::to_string_pretty(&m).unwrap());
    if a == 1 || b == 1 { 1 } else if a == 2 || b == 2 { 2 } else { 0 }
}

pub fn check(prop: &str, tier: &str) -> i32 {
    match prop {
        "C11" | "C14" => two_legs(prop, tier, layer_b_check, "leg_layer_b"),
        "C15" => two_legs(prop, tier, dap_check, "leg_dap"),
        "C09" | "C10" => layer_b_check(prop, tier),
        "C08" => two_legs_of(prop, tier, session_check, dap_check, "leg_dap"),
        "C01" | "C02" | "C03" | "C05" | "C16" => layer_a_check(prop, tier),
        "C18" => two_legs(prop, tier, lib_check, "leg_libraries"),
        "C12" | "C13" => dap_check(prop, tier),
        _ => {
            eprintln!("no check for {prop}");
            2
        }
    }
}

//! The libc seam: `ptrace`, `waitpid`, `getrandom` defined in the harness executable take
//! precedence over libc's for every caller in the process (nix inside bugstalker, std's
//! RandomState).  Each interposer records the call in the syscall history, gives the installed
//! `World` a decision point, and forwards to the real kernel.

use std::sync::Mutex;
use std::sync::atomic::{AtomicU64, Ordering};

pub const PTRACE_PEEKTEXT: u32 = 1;
pub const PTRACE_PEEKDATA: u32 = 2;
pub const PTRACE_PEEKUSER: u32 = 3;
pub const PTRACE_POKETEXT: u32 = 4;
pub const PTRACE_POKEDATA: u32 = 5;
pub const PTRACE_POKEUSER: u32 = 6;
pub const PTRACE_CONT: u32 = 7;
pub const PTRACE_KILL: u32 = 8;
pub const PTRACE_SINGLESTEP: u32 = 9;
pub const PTRACE_GETREGS: u32 = 12;
pub const PTRACE_SETREGS: u32 = 13;
pub const PTRACE_DETACH: u32 = 17;
pub const PTRACE_SYSCALL: u32 = 24;
pub const PTRACE_SEIZE: u32 = 0x4206;
pub const PTRACE_INTERRUPT: u32 = 0x4207;
pub const PTRACE_LISTEN: u32 = 0x4208;
pub const PTRACE_GETSIGINFO: u32 = 0x4202;
pub const PTRACE_GETEVENTMSG: u32 = 0x4201;

#[derive(Clone, Debug)]
pub enum SysRec {
    Ptrace { req: u32, pid: i32, addr: u64, data: u64, ret: i64, errno: i32 },
    Wait { pid: i32, options: i32, ret: i32, status: i32 },
}

/// Decision points offered to the simulator.  Implementations must use `raw::*` only.
pub trait World: Send {
    /// Called before a `waitpid(pid, ..)`.  Return `Some(tid)` to make the real wait target
    /// that task (it must have a pending event), `None` to forward unchanged.
    fn before_wait(&mut self, _pid: i32, _options: i32) -> Option<i32> {
        None
    }
    fn after_wait(&mut self, _ret: i32, _status: i32) {}
    fn before_ptrace(&mut self, _req: u32, _pid: i32, _addr: u64, _data: u64) {}
    fn after_ptrace(&mut self, _req: u32, _pid: i32, _addr: u64, _data: u64, _ret: i64) {}
    fn as_any(&mut self) -> &mut dyn std::any::Any;
}

pub struct SeamState {
    pub history: Vec<SysRec>,
    pub record: bool,
    pub world: Option<Box<dyn World>>,
}

pub static SEAM: Mutex<SeamState> = Mutex::new(SeamState { history: Vec::new(), record: false, world: None });
pub static N_PTRACE: AtomicU64 = AtomicU64::new(0);
pub static N_WAIT: AtomicU64 = AtomicU64::new(0);
pub static N_GETRANDOM: AtomicU64 = AtomicU64::new(0);
/// Deterministic work budget of the command now running: the value of N_PTRACE at which the
/// command counts as not coming back (0 = no budget).  Logical time, not wall-clock time.
pub static PTRACE_DEADLINE: AtomicU64 = AtomicU64::new(0);
pub static ON_DEADLINE: Mutex<Option<Box<dyn Fn() + Send>>> = Mutex::new(None);
/// (read fd, write fd) of every pipe created in this process, in creation order
pub static PIPES: Mutex<Vec<(i32, i32)>> = Mutex::new(Vec::new());
static RANDOM_STATE: AtomicU64 = AtomicU64::new(0x5EED_5EED_5EED_5EED);

/// diagnosis: `touch /verif/scratch/TRACE` makes the seam print every wait and every
/// non-PEEK/POKE ptrace call to stderr
fn trace_on() -> bool {
    std::path::Path::new("/verif/scratch/TRACE").exists()
}

pub fn set_random_seed(seed: u64) {
    RANDOM_STATE.store(seed, Ordering::SeqCst);
}

pub fn install_world(w: Box<dyn World>) {
    SEAM.lock().unwrap().world = Some(w);
}
pub fn take_world() -> Option<Box<dyn World>> {
    SEAM.lock().unwrap().world.take()
}
pub fn with_world<T: 'static, R>(f: impl FnOnce(&mut T) -> R) -> Option<R> {
    let mut g = SEAM.lock().unwrap();
    let w = g.world.as_mut()?;
    let t = w.as_any().downcast_mut::<T>()?;
    Some(f(t))
}
pub fn start_recording() {
    let mut g = SEAM.lock().unwrap();
    g.record = true;
    g.history.clear();
}
pub fn history_len() -> usize {
    SEAM.lock().unwrap().history.len()
}
pub fn history_since(from: usize) -> Vec<SysRec> {
    let g = SEAM.lock().unwrap();
    g.history[from.min(g.history.len())..].to_vec()
}

pub mod raw {
    pub unsafe fn ptrace(req: u32, pid: i32, addr: u64, data: u64) -> i64 {
        unsafe { libc::syscall(libc::SYS_ptrace, req as libc::c_long, pid as libc::c_long, addr, data) }
    }
    /// PEEK* through the raw syscall: the kernel stores the word at `data`.
    pub fn peek(req: u32, pid: i32, addr: u64) -> Result<u64, i32> {
        let mut out: u64 = 0;
        let r = unsafe { ptrace(req, pid, addr, &mut out as *mut u64 as u64) };
        if r < 0 { Err(errno()) } else { Ok(out) }
    }
    pub fn wait4(pid: i32, status: *mut i32, options: i32) -> i32 {
        unsafe { libc::syscall(libc::SYS_wait4, pid, status, options, 0usize) as i32 }
    }
    pub fn errno() -> i32 {
        unsafe { *libc::__errno_location() }
    }
    pub fn getregs(pid: i32) -> Result<libc::user_regs_struct, i32> {
        let mut r: libc::user_regs_struct = unsafe { std::mem::zeroed() };
        let x = unsafe { ptrace(super::PTRACE_GETREGS, pid, 0, &mut r as *mut _ as u64) };
        if x < 0 { Err(errno()) } else { Ok(r) }
    }
    pub fn setregs(pid: i32, r: &libc::user_regs_struct) -> Result<(), i32> {
        let x = unsafe { ptrace(super::PTRACE_SETREGS, pid, 0, r as *const _ as u64) };
        if x < 0 { Err(errno()) } else { Ok(()) }
    }
    pub fn tgkill(tgid: i32, tid: i32, sig: i32) -> i64 {
        unsafe { libc::syscall(libc::SYS_tgkill, tgid, tid, sig) }
    }
}

#[unsafe(no_mangle)]
pub unsafe extern "C" fn waitpid(pid: libc::pid_t, status: *mut libc::c_int, options: libc::c_int) -> libc::pid_t {
    N_WAIT.fetch_add(1, Ordering::Relaxed);
    let decided = {
        let mut g = SEAM.lock().unwrap();
        match g.world.as_mut() {
            Some(w) => w.before_wait(pid, options),
            None => None,
        }
    };
    let target = decided.unwrap_or(pid);
    if trace_on() {
        eprintln!("SEAM wait4({target}, opts={options:#x}) ...");
    }
    let mut st: i32 = 0;
    let opts = if decided.is_some() { options | libc::__WALL } else { options };
    let r = raw::wait4(target, &mut st, opts);
    let e = raw::errno();
    if !status.is_null() {
        unsafe { *status = st };
    }
    if trace_on() {
        eprintln!("SEAM wait4({target}) = {r} status={st:#x}");
    }
    {
        let mut g = SEAM.lock().unwrap();
        if g.record {
            g.history.push(SysRec::Wait { pid, options, ret: r, status: st });
        }
        if let Some(w) = g.world.as_mut() {
            w.after_wait(r, st);
        }
    }
    unsafe { *libc::__errno_location() = e };
    r
}

#[unsafe(no_mangle)]
pub unsafe extern "C" fn ptrace(req: libc::c_uint, pid: libc::pid_t, addr: *mut libc::c_void, data: *mut libc::c_void) -> libc::c_long {
    let n = N_PTRACE.fetch_add(1, Ordering::Relaxed);
    let dl = PTRACE_DEADLINE.load(Ordering::Relaxed);
    if dl != 0 && n > dl {
        if let Ok(g) = ON_DEADLINE.lock() {
            if let Some(f) = g.as_ref() {
                f();
            }
        }
    }
    let (a, d) = (addr as u64, data as u64);
    {
        let mut g = SEAM.lock().unwrap();
        if let Some(w) = g.world.as_mut() {
            w.before_ptrace(req, pid, a, d);
        }
    }
    let (ret, e): (i64, i32) = if req == PTRACE_PEEKTEXT || req == PTRACE_PEEKDATA || req == PTRACE_PEEKUSER {
        match raw::peek(req, pid, a) {
            Ok(v) => (v as i64, 0),
            Err(e) => (-1, e),
        }
    } else {
        let r = unsafe { raw::ptrace(req, pid, a, d) };
        (r, if r < 0 { raw::errno() } else { 0 })
    };
    {
        let mut g = SEAM.lock().unwrap();
        if g.record {
            g.history.push(SysRec::Ptrace { req, pid, addr: a, data: d, ret, errno: e });
        }
        if let Some(w) = g.world.as_mut() {
            w.after_ptrace(req, pid, a, d, ret);
        }
    }
    if trace_on() && !matches!(req, 1 | 2 | 3 | 4 | 5 | 6) {
        eprintln!("SEAM ptrace(req={req:#x}, pid={pid}, addr={a:#x}, data={d:#x}) = {ret} errno={e}");
    }
    // glibc contract for PEEK*: value returned, errno cleared on success
    unsafe { *libc::__errno_location() = e };
    ret as libc::c_long
}

#[unsafe(no_mangle)]
pub unsafe extern "C" fn getrandom(buf: *mut libc::c_void, len: libc::size_t, _flags: libc::c_uint) -> libc::ssize_t {
    N_GETRANDOM.fetch_add(1, Ordering::Relaxed);
    let p = buf as *mut u8;
    let mut i = 0;
    while i < len {
        let s = RANDOM_STATE.fetch_add(0x9E37_79B9_7F4A_7C15, Ordering::SeqCst);
        let mut z = s;
        z = (z ^ (z >> 30)).wrapping_mul(0xBF58_476D_1CE4_E5B9);
        z = (z ^ (z >> 27)).wrapping_mul(0x94D0_49BB_1331_11EB);
        z ^= z >> 31;
        let bytes = z.to_le_bytes();
        let mut k = 0;
        while k < 8 && i < len {
            unsafe { *p.add(i) = bytes[k] };
            i += 1;
            k += 1;
        }
    }
    len as libc::ssize_t
}

#[unsafe(no_mangle)]
pub unsafe extern "C" fn pipe2(fds: *mut libc::c_int, flags: libc::c_int) -> libc::c_int {
    let r = unsafe { libc::syscall(libc::SYS_pipe2, fds, flags) } as libc::c_int;
    if r == 0 {
        let (a, b) = unsafe { (*fds, *fds.add(1)) };
        if let Ok(mut p) = PIPES.lock() {
            p.push((a, b));
        }
    }
    r
}

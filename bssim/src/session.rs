//! C08: no input can crash, hang or corrupt the debugger.
//!
//! One worker = one console-level session against a live debugger stopped inside the *arena*
//! debuggee (a std program whose frame holds values of many types).  The workload is a seeded
//! sequence of command lines, grammar-derived and mutated, parsed with the crate's own
//! `Command::parse` and executed through the crate's command handlers and renderers.
//! Faults: the harness overwrites the debuggee's stack frame and heap with adversarial patterns
//! between commands (all-ones lengths, self-referential and dangling pointers, random bytes),
//! and may SIGKILL the debuggee in the middle of the session.
//! Oracle: the worker's panic hook turns any panic into a violation carrying the command line;
//! the orchestrator's wall-clock backstop turns a hang into one; after every command a fixed
//! probe must still answer (Ok or Err); dropping the debugger must not panic either.

use crate::ns;
use crate::progen::ProgramSpec;
use crate::rng::Tape;
use crate::seam::{self, raw};
use crate::worker::{Violation, WorkerResult, WorkerSpec, bump};
use bugstalker::debugger::process::Child;
use bugstalker::debugger::{Debugger, DebuggerBuilder, NopHook};
use bugstalker::ui::command::{self, Command};
use std::collections::BTreeMap;
use std::path::Path;

static POISONED: std::sync::atomic::AtomicBool = std::sync::atomic::AtomicBool::new(false);
/// ptrace calls one command (plus the probe behind it) may issue before it counts as not coming
/// back: a deterministic stand-in for "bounded time" (about 10 s of wall clock here)
const CMD_BUDGET_CALLS: u64 = 2_000_000;
/// ptrace calls after which a session that still answers is ended early
const SESSION_BUDGET_CALLS: u64 = 1_500_000;

/// Installed at the seam: runs on the debugger's own thread when the budget is exhausted.
fn install_deadline_hook(out: String) {
    *seam::ON_DEADLINE.lock().unwrap() = Some(Box::new(move || {
        let partial = crate::PARTIAL.lock().map(|p| p.clone()).unwrap_or_default();
        let line = partial.0.last().cloned().unwrap_or_default();
        let poisoned = POISONED.load(std::sync::atomic::Ordering::SeqCst);
        let reads_values = line.contains("> var") || line.contains("> arg") || line.contains("> vard");
        let inv = if poisoned && reads_values { "value_rendering_unbounded_on_poisoned_nested_collections" } else if poisoned { "command_unbounded_on_poisoned_memory" } else { "command_took_too_long" };
        let v = Violation { property: "C08".into(), invariant: inv.into(), detail: format!("no answer within {CMD_BUDGET_CALLS} ptrace calls: {}", line.trim()), step: partial.0.len() };
        let r = WorkerResult { verdict: "violation".into(), violations: vec![v], log: partial.0, tape: partial.1, ..Default::default() };
        r.write(&out);
        unsafe { libc::_exit(4) };
    }));
}

pub const ARENA_SRC: &str = r#"use std::cell::RefCell;
use std::collections::{BTreeMap, BTreeSet, HashMap, HashSet, VecDeque};
use std::rc::Rc;
use std::sync::Arc;

#[derive(Debug, Clone)]
struct Point { x: i32, y: i32, tag: &'static str }
#[derive(Debug, Clone)]
enum Shape { Empty, Circle(f64), Rect { w: u16, h: u16 }, Named(String, Box<Shape>) }
#[derive(Debug)]
struct Node { val: u64, next: Option<Box<Node>> }
union Bits { i: u64, f: f64 }

// the debuggee's only source of randomness (std's hash-map keys) goes behind a seam too: std looks
// `getrandom` up as a weak symbol, so this definition decides the keys, and with them the
// bucket indices the hash-map code leaves behind in dead stack slots
#[unsafe(no_mangle)]
pub extern "C" fn getrandom(buf: *mut u8, len: usize, _flags: u32) -> isize {
    for i in 0..len { unsafe { *buf.add(i) = (i as u8).wrapping_mul(37).wrapping_add(11) } }
    len as isize
}

#[inline(never)]
fn stop_here(n: u64) -> u64 { std::hint::black_box(n) + 1 }

#[inline(never)]
fn arena(seed: u64) -> u64 {
    let small: u8 = 200;
    let neg: i64 = -5;
    let wide: u128 = 1 << 100;
    let ratio: f32 = 1.5;
    let flag = true;
    let letter = 'x';
    let unit = ();
    let unit_ref: &() = &unit;
    let pair = (7u16, -3i8, "pair");
    let point = Point { x: 3, y: -4, tag: "pt" };
    let shapes = [Shape::Empty, Shape::Circle(2.5), Shape::Rect { w: 3, h: 4 }, Shape::Named("n".to_string(), Box::new(Shape::Empty))];
    let numbers: Vec<u64> = (0..10).map(|i| i * seed).collect();
    let nested: Vec<Vec<u8>> = vec![vec![1, 2], vec![], vec![3]];
    let text = String::from("hello arena");
    let slice: &[u64] = &numbers[2..5];
    let word: &str = &text[0..5];
    let mut map: HashMap<u64, String> = HashMap::new();
    for i in 0..6 { map.insert(i, format!("v{i}")); }
    let set: HashSet<i32> = [1, 5, 9].into_iter().collect();
    let mut tree: BTreeMap<String, u32> = BTreeMap::new();
    for i in 0..20 { tree.insert(format!("k{i:02}"), i); }
    let tset: BTreeSet<u8> = (0..40).collect();
    let mut ring: VecDeque<i16> = VecDeque::with_capacity(8);
    for i in 0..11 { if ring.len() == 8 { ring.pop_front(); } ring.push_back(i); }
    let boxed = Box::new(point.clone());
    let shared = Rc::new(RefCell::new(vec![1u32, 2, 3]));
    let shared2 = shared.clone();
    let atomic = Arc::new(5u64);
    let list = Node { val: 1, next: Some(Box::new(Node { val: 2, next: None })) };
    let maybe: Option<&Point> = Some(&point);
    let nothing: Option<u32> = None;
    let raw_ptr: *const u64 = &numbers[0];
    let bits = Bits { i: 0x4000_0000_0000_0000 };
    let zst: [u8; 0] = [];
    let closure = |a: u64| a + small as u64;
    let r = stop_here(seed);
    let mut acc = r + numbers.len() as u64 + nested.len() as u64 + text.len() as u64 + slice.len() as u64 + word.len() as u64;
    acc += map.len() as u64 + set.len() as u64 + tree.len() as u64 + tset.len() as u64 + ring.len() as u64 + boxed.x as u64 + shared2.borrow().len() as u64 + *atomic;
    acc += list.val + maybe.map(|p| p.y as u64).unwrap_or(0) + nothing.unwrap_or(0) as u64 + unsafe { *raw_ptr } + unsafe { bits.f } as u64 + zst.len() as u64 + closure(1);
    acc += small as u64 + neg as u64 + (wide >> 100) as u64 + ratio as u64 + flag as u64 + letter as u64 + pair.0 as u64 + shapes.len() as u64;
    let _ = (unit, unit_ref);
    acc
}

fn main() {
    let v = arena(std::hint::black_box(3));
    println!("{v}");
}
"#;

pub fn arena_program(toolchain: &str) -> ProgramSpec {
    ProgramSpec { family: "arena".into(), toolchain: toolchain.into(), opt_level: 0, pie: true, src: ARENA_SRC.into(), functions: vec!["arena".into(), "stop_here".into()], extra_args: vec!["-C".into(), "link-arg=-Wl,--export-dynamic-symbol=getrandom".into()] }
}

const NAMES: &[&str] = &["small", "neg", "wide", "ratio", "flag", "letter", "unit", "pair", "point", "shapes", "numbers", "nested", "text", "slice", "word", "map", "set", "tree", "tset", "ring", "boxed", "shared", "shared2", "atomic", "list", "maybe", "nothing", "raw_ptr", "bits", "zst", "unit_ref", "closure", "seed", "r", "acc", "nosuch"];

fn gen_expr(t: &mut Tape, depth: usize) -> String {
    let base = NAMES[t.choose(NAMES.len())].to_string();
    let mut e = base;
    let n = t.choose(4);
    for _ in 0..n {
        e = match t.choose(12) {
            0 => format!("{e}.x"),
            1 => format!("{e}.0"),
            2 => format!("{e}[{}]", [0i64, 1, 2, 9, 10, 1000, -1, i64::MAX][t.choose(8)]),
            3 => format!("{e}[{}..{}]", [0u64, 1, 3, 99, u64::MAX][t.choose(5)], [0u64, 2, 5, 100, u64::MAX][t.choose(5)]),
            4 => format!("*{e}"),
            5 => format!("&{e}"),
            6 => format!("~{e}"),
            7 => format!("{e}.next"),
            8 => format!("{e}[\"k03\"]"),
            9 => format!("({e})"),
            10 => format!("{e}.val"),
            _ => format!("{e}.len"),
        };
    }
    if depth == 0 && t.chance(1, 8) {
        let ty = ["*const u64", "*const Point", "*const Vec<u64>", "*const String", "*const HashMap<u64, String>", "*const u8", "*const ()"][t.choose(7)];
        let addr = [0u64, 8, 0x1000, 0x5555_5555_4000, 0x7fff_ffff_e000, 0xdead_beef_0000, u64::MAX - 7][t.choose(7)];
        return format!("*(({ty}){addr:#x})");
    }
    e
}

fn mutate(t: &mut Tape, mut s: String) -> String {
    match t.choose(10) {
        0 => s.push_str(" 99999999999999999999999999999999"),
        1 => s.push_str(" 0xffffffffffffffffffffffff"),
        2 => s = s.replace(' ', "  \t "),
        3 => s.push_str(" [[[["),
        4 => s.push_str(" \u{1F600}\u{0301}"),
        5 => {
            let k = t.choose(s.len().max(1));
            let k = (0..=k).rev().find(|i| s.is_char_boundary(*i)).unwrap_or(0);
            s.truncate(k);
        }
        6 => s = s.repeat(3),
        7 => s.push_str(" -1"),
        8 => s = format!("{s} {s}"),
        _ => s.push_str(" ..")
    }
    s
}

fn gen_line(t: &mut Tape) -> String {
    let line = match t.choose(30) {
        0..=8 => format!("var {}", gen_expr(t, 0)),
        9 => "var locals".to_string(),
        10 => format!("arg {}", ["all", "seed", "n", "nosuch"][t.choose(4)]),
        11 => format!("vard {}", gen_expr(t, 1)),
        12 => "backtrace".to_string(),
        13 => "backtrace all".to_string(),
        14 => "frame info".to_string(),
        15 => format!("frame switch {}", [0u64, 1, 2, 5, 100, u64::MAX][t.choose(6)]),
        16 => format!("memory read {:#x}", [0u64, 8, 0x5555_5555_4000, 0x7fff_ffff_dff9, u64::MAX][t.choose(5)]),
        17 => format!("register {}", ["info", "read rip", "read xyz", "read rax"][t.choose(4)]),
        18 => format!("source {}", ["fn", "asm", "4", "0", "100000"][t.choose(5)]),
        19 => format!("symbol {}", ["arena", ".*", "[", "(a+)+$", ""][t.choose(5)]),
        20 => format!("thread {}", ["info", "current", "switch 1", "switch 0", "switch 99"][t.choose(5)]),
        21 => "sharedlib info".to_string(),
        22 => format!("break {}", ["arena", "main.rs:1", "0x0", "nosuch::fn", ":5", "info", "remove 77"][t.choose(7)]),
        23 => format!("watch {}", ["small", "+rw numbers", "0x10:8", "0x7fffffffe001:4", "info", "remove 3", "nosuch"][t.choose(7)]),
        24 => format!("call {}", ["stop_here 1", "nosuch", "stop_here", "stop_here 1 2 3 4 5 6 7", "arena true"][t.choose(5)]),
        25 => format!("async {}", ["backtrace", "backtrace all", "task", "stepover", "stepout"][t.choose(5)]),
        26 => format!("oracle {}", ["tokio", "nosuch", ""][t.choose(3)]),
        27 => format!("trigger {}", ["info", "any", "b 1", "w 2"][t.choose(4)]),
        28 => ["help", "help var", "h", "", "   "][t.choose(5)].to_string(),
        // (source-level steps through std code cost seconds each: the stepping commands have their
        // own checks; here one instruction step keeps the session moving)
        _ => "stepi".to_string(),
    };
    if t.chance(1, 5) { mutate(t, line) } else { line }
}

/// Overwrite the stopped debuggee's frame (and what its pointers lead to) with hostile bytes.
fn poison(t: &mut Tape, pid: i32, style: usize, log: &mut Vec<String>) {
    let Ok(regs) = raw::getregs(pid) else { return };
    // the frame of `arena` sits above `stop_here`'s small frame
    let lo = regs.rsp;
    let len = 512 + 512 * t.choose(8) as u64;
    let Some(frame) = ns::read_mem(pid, lo, len as usize) else { return };
    // style of the session: 0 any pattern, 1 field-level corruption only (everything else stays
    // well formed for the whole session, so a single wrong header word is what the renderers
    // meet), 2 wild patterns only
    let kind = match style {
        1 => 6 + t.choose(3),
        2 => t.choose(6),
        _ => t.choose(9),
    };
    // every further decision of this fault comes from one tape value, hashed with the index of
    // the word it concerns: the tape advances by the same amount whatever the memory holds, and
    // the fate of a word does not depend on what other words happen to contain
    let fseed = t.choose(1 << 30) as u64;
    let h = |k: u64, salt: u64| -> u64 { crate::rng::derive(fseed ^ (salt << 40), "poison", k) };
    let mut out = frame.clone();
    if kind >= 6 {
        // field-level corruption: words that look like lengths / capacities / small counters
        // are zeroed, maximised or bumped one by one (everything else stays well formed)
        let mut n = 0;
        // a half, a quarter or an eighth of them (per fault)
        let den = [2u64, 4, 8][(h(u64::MAX, 6) % 3) as usize];
        for (k, w) in out.chunks_mut(8).enumerate() {
            if w.len() < 8 {
                continue;
            }
            let v = u64::from_le_bytes(w.try_into().unwrap());
            if (1..=64).contains(&v) && h(k as u64, 1) % den == 0 {
                let nv: u64 = match kind {
                    6 => 0,
                    7 => u64::MAX,
                    _ => v + 1 + h(k as u64, 2) % 3,
                };
                w.copy_from_slice(&nv.to_le_bytes());
                n += 1;
            }
        }
        write_mem(pid, lo, &out);
        log.push(format!("    fault: {n} length-like words of the frame changed (pattern {kind})"));
        return;
    }
    let heap: Vec<u64> = frame.chunks(8).filter_map(|c| c.try_into().ok().map(u64::from_le_bytes)).filter(|v| *v > 0x5555_0000_0000 && *v < 0x5556_0000_0000).collect();
    for (k, w) in out.chunks_mut(8).enumerate() {
        if w.len() < 8 || h(k as u64, 3) % 3 != 0 {
            continue;
        }
        let r = h(k as u64, 4);
        let v: u64 = match kind {
            0 => u64::MAX,
            1 => 0,
            2 => lo + 8 * k as u64,                                   // points at itself
            3 => [8u64, 0xdead_beef_0000, 0x7fff_ffff_f000, 1][(r % 4) as usize],    // dangling
            4 => ((r >> 8) % (1 << 16)) << (8 * (r % 7)),             // random
            _ => if heap.is_empty() { 1 << 63 } else { heap[(r % heap.len() as u64) as usize] }, // aliasing heap pointers
        };
        w.copy_from_slice(&v.to_le_bytes());
    }
    write_mem(pid, lo, &out);
    // and some of the heap blocks the frame pointed to
    for (j, hp) in heap.iter().take(6).enumerate() {
        if h(j as u64, 5) % 2 == 0 {
            let pat: Vec<u8> = (0..64).map(|k| if kind % 2 == 0 { 0xff } else { (k * 37 + kind) as u8 }).collect();
            write_mem(pid, *hp, &pat);
        }
    }
    log.push(format!("    fault: poisoned {len} bytes of the frame at rsp (pattern {kind}) and {} heap blocks", heap.len().min(6)));
}

fn write_mem(pid: i32, addr: u64, data: &[u8]) -> bool {
    use std::os::unix::fs::FileExt;
    match std::fs::OpenOptions::new().write(true).open(format!("/proc/{pid}/mem")) {
        Ok(f) => f.write_all_at(data, addr).is_ok(),
        Err(_) => false,
    }
}

fn exec_line(dbg: &mut Debugger, line: &str, stats: &mut BTreeMap<String, u64>) -> String {
    let cmd = match Command::parse(line) {
        Ok(c) => c,
        Err(_) => {
            bump(stats, "c08.parse_errors");
            return "parse error".into();
        }
    };
    bump(stats, "c08.commands_parsed");
    let r: Result<String, String> = match cmd {
        Command::Print(c) => command::print::Handler::new(dbg).handle(c).map_err(|e| e.to_string()).map(|v| {
            let mut n = 0;
            for res in &v {
                match res {
                    command::print::ReadVariableResult::PreRender(q, s) => {
                        let _ = bugstalker::ui::generic::variable::render_variable(q, Some(s));
                        n += 1;
                    }
                    command::print::ReadVariableResult::Raw(q) => {
                        let _ = bugstalker::ui::generic::variable::render_variable(q, None);
                        n += 1;
                    }
                }
            }
            format!("{n} values")
        }),
        Command::PrintBacktrace(c) => command::backtrace::Handler::new(dbg).handle(c).map(|v| format!("{} threads", v.len())).map_err(|e| e.to_string()),
        Command::Frame(c) => command::frame::Handler::new(dbg).handle(c).map(|_| "ok".into()).map_err(|e| e.to_string()),
        Command::Memory(c) => command::memory::Handler::new(dbg).handle(c).map(|v| format!("{} bytes", v.len())).map_err(|e| e.to_string()),
        Command::Register(c) => command::register::Handler::new(dbg).handle(&c).map(|_| "ok".into()).map_err(|e| e.to_string()),
        Command::Thread(c) => command::thread::Handler::new(dbg).handle(c).map(|_| "ok".into()).map_err(|e| e.to_string()),
        Command::SharedLib => Ok(format!("{} libs", command::sharedlib::Handler::new(dbg).handle().len())),
        Command::PrintSymbol(re) => command::symbol::Handler::new(dbg).handle(&re).map(|v| format!("{} symbols", v.len())).map_err(|e| e.to_string()),
        Command::SourceCode(c) => match c {
            command::source_code::Command::Asm => dbg.disasm().map(|a| format!("{} insns", a.instructions.len())).map_err(|e| e.to_string()),
            _ => dbg.current_function_range().map(|_| "ok".into()).map_err(|e| e.to_string()),
        },
        Command::Breakpoint(c) => command::r#break::Handler::new(dbg).handle(&c).map(|_| "ok".into()).map_err(|e| e.to_string()),
        Command::Watchpoint(c) => command::watch::Handler::new(dbg).handle(c).map(|_| "ok".into()).map_err(|e| e.to_string()),
        Command::StepInstruction => dbg.stepi().map(|_| "ok".into()).map_err(|e| e.to_string()),
        Command::StepOver => dbg.step_over().map(|_| "ok".into()).map_err(|e| e.to_string()),
        Command::StepInto => dbg.step_into().map(|_| "ok".into()).map_err(|e| e.to_string()),
        Command::StepOut => dbg.step_out().map(|_| "ok".into()).map_err(|e| e.to_string()),
        Command::Call(c) => command::call::Handler::new(dbg).handle(c).map(|_| "ok".into()).map_err(|e| e.to_string()),
        Command::Async(_) => dbg.async_backtrace().map(|_| "ok".into()).map_err(|e| e.to_string()),
        Command::Help { .. } | Command::SkipInput | Command::Oracle(..) | Command::Trigger(_) => Ok("no-op here".into()),
        Command::Continue | Command::Run => Ok("not issued in this session".into()),
    };
    match r {
        Ok(s) => {
            bump(stats, "c08.commands_ok");
            s
        }
        Err(e) => {
            bump(stats, "c08.commands_err");
            format!("Err({})", e.chars().take(80).collect::<String>())
        }
    }
}

pub fn run(spec: &WorkerSpec) -> WorkerResult {
    let mut tape = match &spec.tape {
        Some(t) => Tape::replay(t.clone()),
        None => Tape::record(spec.seed),
    };
    let mut log: Vec<String> = vec![];
    let mut stats: BTreeMap<String, u64> = BTreeMap::new();
    let mut violations: Vec<Violation> = vec![];
    install_deadline_hook(spec.out.clone());
    seam::start_recording();
    bugstalker::debugger::rust::Environment::init(None);
    // what `bs` does at start-up (src/main.rs): the renderers read the ui configuration
    bugstalker::ui::config::set(bugstalker::ui::config::UIConfig { theme: bugstalker::ui::config::Theme::None, tui_keymap: Default::default(), save_history: false });
    let (_reader, writer) = os_pipe::pipe().unwrap();
    let runner = Child::new(spec.bin.clone(), Vec::<String>::new(), None::<&Path>, writer.try_clone().unwrap(), writer);
    let process = match runner.install() {
        Ok(p) => p,
        Err(e) => return WorkerResult { verdict: "harness_error".into(), detail: format!("install: {e}"), ..Default::default() },
    };
    let pid = process.pid().as_raw();
    let mut dbg = match DebuggerBuilder::<NopHook>::new().build(process) {
        Ok(d) => d,
        Err(e) => return WorkerResult { verdict: "harness_error".into(), detail: format!("build: {e}"), ..Default::default() },
    };
    drop(runner);
    if dbg.set_breakpoint_at_fn("stop_here").is_err() {
        return WorkerResult { verdict: "harness_error".into(), detail: "cannot set the arena breakpoint".into(), ..Default::default() };
    }
    if let Err(e) = dbg.start_debugee() {
        return WorkerResult { verdict: "harness_error".into(), detail: format!("start: {e}"), ..Default::default() };
    }
    // select the frame of `arena` half of the time (frame 1), the innermost otherwise
    let nlines = 20 + tape.choose(spec.params.get("max_ops").and_then(|v| v.as_u64()).unwrap_or(50) as usize);
    let kill_at = if tape.chance(1, 5) { Some(tape.choose(nlines)) } else { None };
    let poison_p = [0usize, 10, 25][tape.choose(3)];
    let style = tape.choose(3);
    let mut killed = false;
    for k in 0..nlines {
        if seam::N_PTRACE.load(std::sync::atomic::Ordering::Relaxed) > SESSION_BUDGET_CALLS {
            // slow but answering (rendering poisoned collections costs millions of PEEKs):
            // the session ends here, within the orchestrator's wall-clock backstop
            bump(&mut stats, "c08.session_cut_short_slow_but_alive");
            log.push("    session cut short: ptrace budget of the session used up (every command answered)".into());
            break;
        }
        if Some(k) == kill_at {
            unsafe { libc::kill(pid, libc::SIGKILL) };
            // the kill takes effect asynchronously: wait until the process is really gone (a
            // zombie waiting for its tracer), so that what the next commands see does not
            // depend on timing
            let t0 = std::time::Instant::now();
            while !matches!(ns::task_state(pid, pid), 'Z' | 'X') && t0.elapsed().as_secs() < 10 {
                std::thread::yield_now();
            }
            killed = true;
            bump(&mut stats, "c08.fault_debuggee_killed");
            log.push("    fault: debuggee SIGKILLed from outside".into());
        }
        let mut just_poisoned = false;
        if !killed && poison_p > 0 && tape.chance(poison_p, 100) {
            poison(&mut tape, pid, style, &mut log);
            bump(&mut stats, ["c08.fault_style_any", "c08.fault_style_field_level_only", "c08.fault_style_wild_only"][style]);
            POISONED.store(true, std::sync::atomic::Ordering::SeqCst);
            bump(&mut stats, "c08.fault_memory_poisoned");
            just_poisoned = true;
        }
        if !killed && (k % 5 != 4 || just_poisoned) {
            // most commands look at the frame of `arena` (frame 1), where the values live
            let _ = dbg.set_frame_into_focus(1);
        }
        // a fault is placed in front of an operation that looks at what it changed: half of the
        // time the next command renders every local of the poisoned frame (or one of them)
        let line = if just_poisoned && tape.chance(1, 2) {
            bump(&mut stats, "c08.render_right_after_fault");
            if tape.chance(2, 3) { "var locals".to_string() } else { format!("var {}", NAMES[tape.choose(NAMES.len())]) }
        } else {
            gen_line(&mut tape)
        };
        let shown: String = line.chars().take(120).collect();
        // the panic hook reports through the partial log: record the line before running it
        if let Ok(mut p) = crate::PARTIAL.lock() {
            p.0 = log.clone();
            p.0.push(format!("{:3} > {shown}   <-- running", k + 1));
            p.1 = tape.rec.clone();
        }
        let t0 = std::time::Instant::now();
        seam::PTRACE_DEADLINE.store(seam::N_PTRACE.load(std::sync::atomic::Ordering::Relaxed) + CMD_BUDGET_CALLS, std::sync::atomic::Ordering::SeqCst);
        let out = exec_line(&mut dbg, &line, &mut stats);
        let ms = t0.elapsed().as_millis();
        log.push(format!("{:3} > {shown} -> {out}", k + 1));
        let _ = ms;
        // the session is still usable: a fixed probe answers (with a value or with an error)
        let t1 = std::time::Instant::now();
        let _ = dbg.backtrace(nix::unistd::Pid::from_raw(pid));
        let _ = dbg.read_local_variables().map(|v| v.len());
        let _ = t1;
        seam::PTRACE_DEADLINE.store(0, std::sync::atomic::Ordering::SeqCst);
        bump(&mut stats, "c08.probe_after_command");
    }
    if let Ok(mut p) = crate::PARTIAL.lock() {
        p.0 = log.clone();
        p.0.push("    dropping the debugger   <-- running".into());
        p.1 = tape.rec.clone();
    }
    drop(dbg);
    bump(&mut stats, "c08.sessions_completed");
    let left: Vec<(i32, char, String)> = ns::all_processes().into_iter().filter(|(p, st, _)| *p > 2 && *st != 'Z').collect();
    if !left.is_empty() {
        violations.push(Violation { property: "C11".into(), invariant: "process_left_behind".into(), detail: format!("{left:?}"), step: nlines });
    }
    let verdict = if violations.is_empty() { "ok" } else { "violation" };
    WorkerResult { verdict: verdict.into(), violations, detail: String::new(), log, tape: tape.rec.clone(), stats, ops: nlines, seam_calls: seam::N_PTRACE.load(std::sync::atomic::Ordering::Relaxed) + seam::N_WAIT.load(std::sync::atomic::Ordering::Relaxed) }
}

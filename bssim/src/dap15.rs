//! C15, DAP leg: readMemory / writeMemory / setVariable / setExpression against a byte mirror
//! of the debuggee's writable memory read by the harness through /proc/<pid>/mem.
//! Every write is verified (exactly [a, a+n) changed, neighbours untouched, later reads return
//! the written value) and then undone by the harness, so that the program runs on unperturbed.

use crate::dap::{Driver, Rec};
use crate::ns;
use crate::reftrace;
use crate::rng::Tape;
use crate::seam::raw;
use crate::worker::{Violation, WorkerSpec};
use serde_json::{Value, json};
use std::collections::BTreeMap;
use std::path::Path;

fn b64enc(data: &[u8]) -> String {
    const T: &[u8; 64] = b"ABCDEFGHIJKLMNOPQRSTUVWXYZabcdefghijklmnopqrstuvwxyz0123456789+/";
    let mut out = String::new();
    for c in data.chunks(3) {
        let b = [c[0], *c.get(1).unwrap_or(&0), *c.get(2).unwrap_or(&0)];
        let n = ((b[0] as u32) << 16) | ((b[1] as u32) << 8) | b[2] as u32;
        out.push(T[(n >> 18) as usize & 63] as char);
        out.push(T[(n >> 12) as usize & 63] as char);
        out.push(if c.len() > 1 { T[(n >> 6) as usize & 63] as char } else { '=' });
        out.push(if c.len() > 2 { T[n as usize & 63] as char } else { '=' });
    }
    out
}

fn b64dec(s: &str) -> Option<Vec<u8>> {
    let mut out = vec![];
    let mut acc = 0u32;
    let mut bits = 0;
    for ch in s.bytes() {
        let v = match ch {
            b'A'..=b'Z' => ch - b'A',
            b'a'..=b'z' => ch - b'a' + 26,
            b'0'..=b'9' => ch - b'0' + 52,
            b'+' => 62,
            b'/' => 63,
            b'=' => break,
            _ => return None,
        } as u32;
        acc = (acc << 6) | v;
        bits += 6;
        if bits >= 8 {
            bits -= 8;
            out.push((acc >> bits) as u8);
            acc &= (1 << bits) - 1;
        }
    }
    Some(out)
}

#[derive(Clone, Debug)]
enum Last {
    None,
    Run,
    Read { addr: u64, n: usize },
    Write { addr: u64, data: Vec<u8> },
    StackTrace,
    Scopes,
    Variables,
    SetVar { name: String, value: u64, ty: String },
    SetExpr { name: String, value: u64, ty: String },
    Other,
}

pub struct MemDriver {
    program: String,
    source: String,
    lines: Vec<u64>,
    calllog: u64,
    next_seq: i64,
    sent: usize,
    max: usize,
    done: bool,
    phase: u8,
    last: Last,
    seen: usize,
    stopped: bool,
    exited: bool,
    frame_id: i64,
    var_ref: i64,
    vars: Vec<(String, String, String)>, // name, value, type
    /// mirror taken right before a writing request: (start, bytes)
    mirror: Vec<(u64, Vec<u8>)>,
    violations: Vec<Violation>,
    stats: BTreeMap<String, u64>,
    thread_id: i64,
}

fn bump(m: &mut BTreeMap<String, u64>, k: &str) {
    *m.entry(k.to_string()).or_default() += 1;
}

fn write_mem(pid: i32, addr: u64, data: &[u8]) -> bool {
    use std::os::unix::fs::FileExt;
    match std::fs::OpenOptions::new().write(true).open(format!("/proc/{pid}/mem")) {
        Ok(f) => f.write_all_at(data, addr).is_ok(),
        Err(_) => false,
    }
}

impl MemDriver {
    pub fn new(spec: &WorkerSpec, max: usize) -> Result<Self, String> {
        let bin = Path::new(&spec.bin);
        let lt = crate::linetab::load(bin)?;
        let file_id = lt.file_id(&spec.src_file).ok_or("source file not in line table")?;
        let lines: Vec<u64> = lt.stmt_lines(file_id).into_iter().collect();
        let info = reftrace::elf_info(bin)?;
        let calllog = 0x5555_5555_4000 + info.data.get("CALLLOG").copied().unwrap_or(0);
        Ok(MemDriver {
            program: spec.bin.clone(),
            source: bin.with_extension("rs").to_string_lossy().to_string(),
            lines,
            calllog,
            next_seq: 1,
            sent: 0,
            max,
            done: false,
            phase: 0,
            last: Last::None,
            seen: 0,
            stopped: false,
            exited: false,
            frame_id: 0,
            var_ref: 0,
            vars: vec![],
            mirror: vec![],
            violations: vec![],
            stats: BTreeMap::new(),
            thread_id: 1,
        })
    }

    fn violate(&mut self, inv: &str, d: String) {
        self.violations.push(Violation { property: "C15".into(), invariant: inv.into(), detail: d, step: self.sent });
    }

    fn req(&mut self, command: &str, arguments: Value) -> Value {
        let seq = self.next_seq;
        self.next_seq += 1;
        json!({"seq": seq, "type": "request", "command": command, "arguments": arguments})
    }

    fn pid(&self) -> Option<i32> {
        let name = Path::new(&self.program).file_name()?.to_string_lossy().to_string();
        ns::all_processes().into_iter().filter(|(p, st, comm)| *p > 2 && *st == 't' && name.starts_with(comm.as_str())).map(|(p, _, _)| p).max()
    }

    /// the writable memory the requests of this leg may touch: the executable's data and the stack
    fn take_mirror(&self) -> Vec<(u64, Vec<u8>)> {
        let Some(pid) = self.pid() else { return vec![] };
        let mut out = vec![];
        for m in ns::maps(pid) {
            if !m.perms.starts_with("rw") {
                continue;
            }
            if m.path == self.program || m.path == "[stack]" {
                if let Some(b) = ns::read_mem(pid, m.start, (m.end - m.start) as usize) {
                    out.push((m.start, b));
                }
            }
        }
        out
    }

    /// (address, old, new) of every byte that differs from the mirror
    fn diff(&self) -> Vec<(u64, u8, u8)> {
        let now = self.take_mirror();
        let mut d = vec![];
        for (s0, b0) in &self.mirror {
            if let Some((_, b1)) = now.iter().find(|(s1, b1)| s1 == s0 && b1.len() == b0.len()) {
                if b0 == b1 {
                    continue;
                }
                for k in 0..b0.len() {
                    if b0[k] != b1[k] {
                        d.push((s0 + k as u64, b0[k], b1[k]));
                    }
                }
            }
        }
        d
    }

    fn restore(&self) {
        let Some(pid) = self.pid() else { return };
        for (a, old, _) in self.diff() {
            write_mem(pid, a, &[old]);
        }
    }

    fn where_(&self, a: u64) -> String {
        if a >= self.calllog && a < self.calllog + 1024 {
            return format!("CALLLOG+{}", a - self.calllog);
        }
        match self.pid().map(|p| ns::maps(p)) {
            Some(maps) => maps.iter().find(|m| a >= m.start && a < m.end).map(|m| format!("{}+{:#x}", if m.path.is_empty() { "anon" } else { m.path.rsplit('/').next().unwrap_or("") }, a - m.start)).unwrap_or(format!("{a:#x}")),
            None => format!("{a:#x}"),
        }
    }

    fn type_size(ty: &str) -> Option<u64> {
        Some(match ty {
            "u8" | "i8" | "bool" => 1,
            "u16" | "i16" => 2,
            "u32" | "i32" => 4,
            "u64" | "i64" | "usize" | "isize" => 8,
            _ => return None,
        })
    }

    fn digest(&mut self, records: &[Rec]) {
        let new: Vec<Rec> = records[self.seen.min(records.len())..].to_vec();
        self.seen = records.len();
        let writes: Vec<&Value> = new.iter().filter_map(|r| if let Rec::Write(m) = r { Some(m) } else { None }).collect();
        for m in &writes {
            if m["event"] == "stopped" {
                self.stopped = true;
                if let Some(t) = m["body"]["threadId"].as_i64() {
                    self.thread_id = t;
                }
            }
            if m["event"] == "exited" || m["event"] == "terminated" {
                self.exited = true;
                self.stopped = false;
            }
        }
        let rsp = writes.iter().find(|m| m["type"] == "response").copied().cloned();
        let last = std::mem::replace(&mut self.last, Last::None);
        let Some(rsp) = rsp else { return };
        let ok = rsp["success"] == true;
        match last {
            Last::Read { addr, n } => {
                bump(&mut self.stats, "c15.dap_read_checked");
                let reference = self.pid().and_then(|p| if n == 0 { Some(vec![]) } else { ns::read_mem(p, addr, n) });
                match (ok, reference) {
                    (true, Some(exp)) => {
                        let got = rsp["body"]["data"].as_str().and_then(b64dec).unwrap_or_default();
                        if got != exp {
                            let k = got.iter().zip(exp.iter()).position(|(a, b)| a != b).unwrap_or(got.len().min(exp.len()));
                            let d = format!("readMemory({}, {n}) returned {} bytes, first difference at +{k}", self.where_(addr), got.len());
                            self.violate("dap_read_wrong_bytes", d);
                        } else {
                            bump(&mut self.stats, "c15.dap_read_ok_compared");
                        }
                    }
                    (true, None) => {
                        let d = format!("readMemory({}, {n}) succeeded although part of the range is not readable", self.where_(addr));
                        self.violate("dap_read_invented_bytes", d);
                    }
                    (false, Some(_)) => {
                        let d = format!("readMemory({}, {n}) failed although every byte is readable: {}", self.where_(addr), rsp["message"]);
                        self.violate("dap_read_failed_on_readable_range", d);
                    }
                    (false, None) => bump(&mut self.stats, "c15.dap_read_fault_reported"),
                }
            }
            Last::Write { addr, data } => {
                bump(&mut self.stats, "c15.dap_write_checked");
                let d = self.diff();
                let n = data.len() as u64;
                for (a, old, new) in &d {
                    if *a < addr || *a >= addr + n {
                        let msg = format!("writeMemory({}, {n} bytes){} changed the byte at {} ({old:#04x} -> {new:#04x}), outside [a, a+n)", self.where_(addr), if ok { "" } else { " (reported as failed)" }, self.where_(*a));
                        self.violate("dap_write_outside_range", msg);
                        break;
                    }
                }
                if ok {
                    bump(&mut self.stats, "c15.dap_write_ok");
                    let now = self.pid().and_then(|p| ns::read_mem(p, addr, data.len()));
                    if now.as_deref() != Some(&data[..]) {
                        let msg = format!("writeMemory({}, {n} bytes) succeeded but the range does not hold the written bytes", self.where_(addr));
                        self.violate("dap_write_wrong_value", msg);
                    }
                    if rsp["body"]["bytesWritten"].as_u64() != Some(n) {
                        self.violate("dap_write_count", format!("bytesWritten {} for {n} bytes", rsp["body"]["bytesWritten"]));
                    }
                } else {
                    bump(&mut self.stats, "c15.dap_write_fault_reported");
                }
                self.restore();
            }
            Last::StackTrace => {
                if ok {
                    self.frame_id = rsp["body"]["stackFrames"][0]["id"].as_i64().unwrap_or(0);
                }
            }
            Last::Scopes => {
                if ok {
                    self.var_ref = rsp["body"]["scopes"][0]["variablesReference"].as_i64().unwrap_or(0);
                }
            }
            Last::Variables => {
                self.vars.clear();
                if ok {
                    for v in rsp["body"]["variables"].as_array().cloned().unwrap_or_default() {
                        self.vars.push((v["name"].as_str().unwrap_or("").to_string(), v["value"].as_str().unwrap_or("").to_string(), v["type"].as_str().unwrap_or("").to_string()));
                    }
                }
            }
            Last::SetVar { name, value, ty } | Last::SetExpr { name, value, ty } => {
                bump(&mut self.stats, "c15.dap_set_checked");
                let d = self.diff();
                if ok {
                    bump(&mut self.stats, "c15.dap_set_ok");
                    let size = Self::type_size(&ty).unwrap_or(8);
                    if let (Some(lo), Some(hi)) = (d.iter().map(|x| x.0).min(), d.iter().map(|x| x.0).max()) {
                        if hi - lo >= size {
                            let msg = format!("set `{name}` ({ty}) = {value} changed bytes from {} to {}: more than the {size} bytes of the variable", self.where_(lo), self.where_(hi));
                            self.violate("dap_set_touches_neighbours", msg);
                        }
                    }
                    let shown = rsp["body"]["value"].as_str().unwrap_or("").to_string();
                    let want = if ty == "bool" { (value != 0).to_string() } else { value.to_string() };
                    if shown != want {
                        self.violate("dap_set_value_shown", format!("set `{name}` ({ty}) = {want}: the response shows {shown:?}"));
                    }
                } else {
                    if !d.is_empty() {
                        let msg = format!("set `{name}` was refused ({}) but {} bytes changed", rsp["message"], d.len());
                        self.violate("dap_set_refused_with_side_effect", msg);
                    }
                    bump(&mut self.stats, "c15.dap_set_refused");
                }
                self.restore();
            }
            _ => {}
        }
    }
}

impl Driver for MemDriver {
    fn has_next(&self) -> bool {
        !self.done
    }

    fn next(&mut self, t: &mut Tape, records: &[Rec]) -> Option<Value> {
        if self.done {
            return None;
        }
        self.digest(records);
        self.sent += 1;
        if self.sent >= self.max || (self.phase >= 3 && self.exited) {
            self.done = true;
            self.last = Last::Other;
            return Some(self.req("disconnect", json!({"terminateDebuggee": true})));
        }
        match self.phase {
            0 => {
                self.phase = 1;
                self.last = Last::Other;
                Some(self.req("initialize", json!({"adapterID": "bssim", "linesStartAt1": true})))
            }
            1 => {
                self.phase = 2;
                self.last = Last::Other;
                let p = self.program.clone();
                Some(self.req("launch", json!({"program": p})))
            }
            2 => {
                self.phase = 25;
                self.last = Last::Other;
                let n = 1 + t.choose(3);
                let bps: Vec<Value> = (0..n).map(|_| json!({"line": self.lines[t.choose(self.lines.len())]})).collect();
                let src = self.source.clone();
                Some(self.req("setBreakpoints", json!({"source": {"path": src, "name": "p.rs"}, "breakpoints": bps})))
            }
            25 => {
                self.phase = 3;
                self.last = Last::Run;
                Some(self.req("configurationDone", json!({})))
            }
            _ => {
                if !self.stopped {
                    self.done = true;
                    self.last = Last::Other;
                    return Some(self.req("disconnect", json!({"terminateDebuggee": true})));
                }
                let Some(pid) = self.pid() else {
                    self.done = true;
                    return Some(self.req("disconnect", json!({"terminateDebuggee": true})));
                };
                let rsp = raw::getregs(pid).map(|r| r.rsp).unwrap_or(0);
                match t.choose(12) {
                    0 => {
                        self.stopped = false;
                        self.vars.clear();
                        self.var_ref = 0;
                        self.last = Last::Run;
                        let tid = self.thread_id;
                        Some(self.req("continue", json!({"threadId": tid})))
                    }
                    1 | 2 | 3 => {
                        // read: any alignment, around the data window, the stack and their ends
                        let maps: Vec<ns::MapEntry> = ns::maps(pid).into_iter().filter(|m| !m.path.starts_with("[v")).collect();
                        let m = &maps[t.choose(maps.len())];
                        let anchor = [m.start, m.end, self.calllog, rsp][t.choose(4)];
                        let addr = (anchor as i64 + t.choose(49) as i64 - 24).max(0) as u64;
                        let n = [0usize, 1, 3, 8, 9, 16, 33, 4096, 4100][t.choose(9)];
                        let (off, base) = if t.chance(1, 3) { (7i64, addr - 7) } else { (0, addr) };
                        self.last = Last::Read { addr, n };
                        Some(self.req("readMemory", json!({"memoryReference": format!("0x{base:x}"), "offset": off, "count": n})))
                    }
                    4 | 5 | 6 | 7 => {
                        // write: 1..40 bytes at any alignment into the log array or the stack
                        let base = if t.chance(1, 2) { self.calllog + t.choose(900) as u64 } else { rsp.wrapping_sub(128) + t.choose(512) as u64 };
                        let n = 1 + t.choose(40);
                        let data: Vec<u8> = (0..n).map(|k| (0xA0 + ((k * 7 + self.sent) % 90)) as u8).collect();
                        self.mirror = self.take_mirror();
                        self.last = Last::Write { addr: base, data: data.clone() };
                        Some(self.req("writeMemory", json!({"memoryReference": format!("0x{base:x}"), "data": b64enc(&data)})))
                    }
                    8 => {
                        self.last = Last::StackTrace;
                        let tid = self.thread_id;
                        Some(self.req("stackTrace", json!({"threadId": tid})))
                    }
                    9 => {
                        self.last = Last::Scopes;
                        let f = self.frame_id;
                        Some(self.req("scopes", json!({"frameId": f})))
                    }
                    10 if self.var_ref != 0 => {
                        self.last = Last::Variables;
                        let r = self.var_ref;
                        Some(self.req("variables", json!({"variablesReference": r})))
                    }
                    _ => {
                        let cands: Vec<(String, String, String)> = self.vars.iter().filter(|v| Self::type_size(&v.2).is_some()).cloned().collect();
                        if cands.is_empty() || self.var_ref == 0 {
                            // walk towards a variable list
                            let (l, r) = if self.frame_id == 0 { (Last::StackTrace, self.req("stackTrace", json!({"threadId": self.thread_id}))) } else if self.var_ref == 0 { (Last::Scopes, self.req("scopes", json!({"frameId": self.frame_id}))) } else { (Last::Variables, self.req("variables", json!({"variablesReference": self.var_ref}))) };
                            self.last = l;
                            return Some(r);
                        }
                        let (name, _, ty) = cands[t.choose(cands.len())].clone();
                        let size = Self::type_size(&ty).unwrap();
                        let raw_v = [0u64, 1, 7, 200, 65000, 4_000_000_000, 1 << 40, u64::MAX >> 1][t.choose(8)];
                        let value = if ty == "bool" { raw_v & 1 } else if size >= 8 { raw_v } else { raw_v & ((1u64 << (8 * size)) - 1) };
                        let value = if ty.starts_with('i') { value & ((1u64 << (8 * size - 1)) - 1) } else { value };
                        let text = if ty == "bool" { (value != 0).to_string() } else { value.to_string() };
                        self.mirror = self.take_mirror();
                        if t.chance(1, 2) {
                            self.last = Last::SetVar { name: name.clone(), value, ty };
                            let r = self.var_ref;
                            Some(self.req("setVariable", json!({"variablesReference": r, "name": name, "value": text})))
                        } else {
                            self.last = Last::SetExpr { name: name.clone(), value, ty };
                            let f = self.frame_id;
                            Some(self.req("setExpression", json!({"expression": name, "value": text, "frameId": f})))
                        }
                    }
                }
            }
        }
    }

    fn finish(&mut self, records: &[Rec]) -> (Vec<Violation>, BTreeMap<String, u64>) {
        self.digest(records);
        (std::mem::take(&mut self.violations), std::mem::take(&mut self.stats))
    }
}

//! C18, library leg: code is found wherever it is loaded.
//!
//! A driver executable calls functions of two `cdylib` libraries: one linked at start-up, one
//! loaded, unloaded and loaded again with dlopen/dlclose.  The history of the user (seeded):
//! which breakpoints are requested before start (the dlopen'ed library's as *deferred* ones),
//! which at the first stop, removals and re-adds, `finish` out of library code, one restart.
//! Oracles (all from the harness's own reading of the process): every stop is at the function
//! the call sequence of the driver says, the reported pc is the real pc and lies inside
//! [library base from /proc/<pid>/maps + ELF symbol], the backtrace from library code reaches
//! the driver's `main`, `shared_libs()` equals the file-backed executable objects of
//! /proc/<pid>/maps, and a deferred breakpoint gives its first stop at the first call after the
//! library appeared.

use crate::compile;
use crate::ns;
use crate::progen::ProgramSpec;
use crate::reftrace;
use crate::rng::Tape;
use crate::seam::{self, raw};
use crate::worker::{Violation, WorkerResult, WorkerSpec, bump};
use bugstalker::debugger::process::Child;
use bugstalker::debugger::{Debugger, DebuggerBuilder, NopHook, StopReason};
use std::collections::{BTreeMap, BTreeSet};
use std::path::Path;

const LIB_PRELUDE: &str = r#"#![no_std]
#![allow(unused)]
use core::panic::PanicInfo;
#[panic_handler]
fn panic(_: &PanicInfo) -> ! { loop {} }
#[unsafe(no_mangle)] pub extern "C" fn rust_eh_personality() {}
"#;

pub fn lib_program(name: &str, toolchain: &str) -> ProgramSpec {
    let src = format!(
        r#"{LIB_PRELUDE}
#[unsafe(no_mangle)] pub static mut {up}_CALLS: u64 = 0;
#[inline(never)]
#[unsafe(no_mangle)]
pub extern "C" fn {name}_inner(x: u64) -> u64 {{
    x.wrapping_mul(3) ^ 0x5a
}}
#[inline(never)]
#[unsafe(no_mangle)]
pub extern "C" fn {name}_work(x: u64) -> u64 {{
    unsafe {{ core::ptr::write_volatile(&raw mut {up}_CALLS, core::ptr::read_volatile(&raw const {up}_CALLS) + 1) }};
    let r = {name}_inner(x);
    r.wrapping_add(1)
}}
"#,
        up = name.to_uppercase()
    );
    ProgramSpec { family: "lib".into(), toolchain: toolchain.into(), opt_level: 0, pie: true, src, functions: vec![format!("{name}_work"), format!("{name}_inner")], extra_args: vec!["--crate-type".into(), "cdylib".into()] }
}

/// The driver: calls liba_work (linked at start-up) `a1` times, dlopens libb and calls libb_work
/// `b1` times, dlcloses it, calls liba_work `a2` times, dlopens libb again and calls it `b2` times.
pub fn driver_program(toolchain: &str, liba: &Path, libb: &Path, libx: &Path, counts: [u32; 4]) -> ProgramSpec {
    let [a1, b1, a2, b2] = counts;
    let src = format!(
        r#"#![no_std]
#![no_main]
#![allow(unused)]
use core::panic::PanicInfo;
#[panic_handler]
fn panic(_: &PanicInfo) -> ! {{ unsafe {{ exit(101) }} }}
#[unsafe(no_mangle)] pub extern "C" fn rust_eh_personality() {{}}
#[link(name = "c")]
unsafe extern "C" {{
    fn exit(code: i32) -> !;
    fn dlopen(path: *const u8, flags: i32) -> *mut u8;
    fn dlsym(h: *mut u8, name: *const u8) -> *mut u8;
    fn dlclose(h: *mut u8) -> i32;
    fn liba_work(x: u64) -> u64;
}}
#[unsafe(no_mangle)] pub static mut TICK: u64 = 0;
static LIBB: &[u8] = b"{libb}\0";
static LIBX: &[u8] = b"{libx}\0";
#[inline(never)]
fn hold_x() {{
    // a third library that stays loaded: it takes the address range the unloaded one had,
    // so the reload below lands somewhere else
    unsafe {{ if dlopen(LIBX.as_ptr(), 2).is_null() {{ exit(92); }} }}
}}
#[inline(never)]
fn call_b(n: u64, acc: &mut u64) {{
    unsafe {{
        let h = dlopen(LIBB.as_ptr(), 2);
        if h.is_null() {{ exit(90); }}
        let f = dlsym(h, b"libb_work\0".as_ptr());
        if f.is_null() {{ exit(91); }}
        let f: extern "C" fn(u64) -> u64 = core::mem::transmute(f);
        let mut i = 0;
        while i < n {{
            *acc = acc.wrapping_add(f(i));
            i += 1;
        }}
        dlclose(h);
    }}
}}
#[unsafe(no_mangle)]
pub extern "C" fn main(_argc: i32, _argv: *const *const u8) -> i32 {{
    let mut acc: u64 = _argc as u64;
    let mut i = 0;
    while i < {a1} {{ acc = acc.wrapping_add(unsafe {{ liba_work(i) }}); i += 1; }}
    call_b({b1}, &mut acc);
    i = 0;
    while i < {a2} {{ acc = acc.wrapping_add(unsafe {{ liba_work(i + 10) }}); i += 1; }}
    hold_x();
    call_b({b2}, &mut acc);
    (acc % 200) as i32
}}
"#,
        libb = libb.display(),
        libx = libx.display()
    );
    let dir = liba.parent().unwrap().display().to_string();
    ProgramSpec {
        family: "libdriver".into(),
        toolchain: toolchain.into(),
        opt_level: 0,
        pie: true,
        src,
        functions: vec!["main".into(), "call_b".into()],
        extra_args: vec!["-C".into(), format!("link-arg={}", liba.display()), "-C".into(), format!("link-arg=-Wl,-rpath,{dir}"), "-C".into(), "link-arg=-ldl".into()],
    }
}

fn sym(bin: &str, name: &str) -> Option<(u64, u64)> {
    reftrace::elf_info(Path::new(bin)).ok()?.symbols.iter().find(|(n, _, _)| n == name).map(|(_, a, s)| (*a, *s))
}

fn lib_base(pid: i32, path: &str) -> Option<u64> {
    ns::maps(pid).iter().filter(|m| m.path == path).map(|m| m.start - m.offset).min()
}

struct S<'a> {
    spec: &'a WorkerSpec,
    liba: String,
    libb: String,
    pid: i32,
    log: Vec<String>,
    stats: BTreeMap<String, u64>,
    violations: Vec<Violation>,
    step: usize,
}

impl S<'_> {
    fn violate(&mut self, inv: &str, d: String) {
        self.log.push(format!("  !! C18:{inv} {d}"));
        self.violations.push(Violation { property: "C18".into(), invariant: inv.into(), detail: d, step: self.step });
    }

    /// which function of which object holds `pc` (by /proc maps + ELF symbols)
    fn locate(&self, pc: u64) -> Option<(String, String, u64)> {
        for m in ns::maps(self.pid) {
            if pc >= m.start && pc < m.end && m.path.starts_with('/') {
                let base = lib_base(self.pid, &m.path)?;
                let info = reftrace::elf_info(Path::new(&m.path)).ok()?;
                let g = pc - base;
                let f = info.symbols.iter().find(|(_, a, s)| g >= *a && g < *a + *s).map(|(n, a, _)| (n.clone(), g - *a));
                let obj = m.path.rsplit('/').next().unwrap_or("").to_string();
                return f.map(|(n, off)| (obj, n, off));
            }
        }
        None
    }

    fn check_stop(&mut self, dbg: &Debugger, reason: &StopReason, expect_fn: &str) {
        bump(&mut self.stats, "c18.stops_checked");
        let StopReason::Breakpoint(p, addr) = reason else {
            self.violate("missed_library_stop", format!("expected a stop in `{expect_fn}`, got {reason:?}"));
            return;
        };
        let pc = addr.as_u64();
        let real = raw::getregs(p.as_raw()).map(|r| r.rip).unwrap_or(0);
        if real != pc {
            self.violate("stop_pc", format!("reported pc {pc:#x}, real pc {real:#x}"));
        }
        match self.locate(pc) {
            Some((obj, f, off)) => {
                self.log.push(format!("      at {obj}:{f}+{off}"));
                if f != expect_fn {
                    self.violate("stop_in_wrong_function", format!("expected a stop in `{expect_fn}`, stopped in {obj}:{f}+{off}"));
                } else if off > 64 {
                    self.violate("breakpoint_address_not_at_function_start", format!("{f}+{off}"));
                }
            }
            None => self.violate("stop_outside_mapped_objects", format!("pc {pc:#x} belongs to no file-backed mapping")),
        }
        // unwinding through the library frame reaches the driver
        match dbg.backtrace(*p) {
            Ok(bt) => {
                bump(&mut self.stats, "c18.backtrace_from_library_checked");
                let names: Vec<String> = bt.iter().map(|f| self.locate(f.ip.as_u64()).map(|(_, n, _)| n).unwrap_or("?".into())).collect();
                let want_caller = if expect_fn.starts_with("libb") { "call_b" } else { "main" };
                if names.first().map(|s| s.as_str()) != Some(expect_fn) || !names.iter().any(|n| n.contains(want_caller)) || !names.iter().any(|n| n == "main") {
                    self.violate("backtrace_through_library", format!("backtrace from `{expect_fn}` is {names:?}: it must start there and reach `{want_caller}` and `main` of the driver"));
                }
            }
            Err(e) => self.violate("backtrace_through_library", format!("backtrace from `{expect_fn}` failed: {e}")),
        }
        self.check_sharedlibs(dbg);
    }

    fn check_sharedlibs(&mut self, dbg: &Debugger) {
        let canon = |p: &str| std::fs::canonicalize(p).map(|c| c.to_string_lossy().to_string()).unwrap_or(p.to_string());
        let mapped: BTreeSet<String> = ns::maps(self.pid).iter().filter(|m| m.perms.contains('x') && m.path.starts_with('/')).map(|m| canon(&m.path)).collect();
        let listed: BTreeSet<String> = dbg.shared_libs().iter().filter(|r| r.range.is_some()).map(|r| canon(&r.path.to_string_lossy())).collect();
        bump(&mut self.stats, "c18.sharedlib_list_checked");
        if mapped != listed {
            let missing: Vec<&String> = mapped.difference(&listed).collect();
            let extra: Vec<&String> = listed.difference(&mapped).collect();
            let short = |v: &Vec<&String>| v.iter().map(|s| s.rsplit('/').next().unwrap_or("").to_string()).collect::<Vec<_>>();
            self.violate(if !extra.is_empty() { "sharedlib_lists_unmapped_object" } else { "sharedlib_misses_mapped_object" }, format!("shared_libs() vs /proc/maps: missing {:?}, listed but not mapped {:?}", short(&missing), short(&extra)));
        }
        // every listed range starts at the real base
        for r in dbg.shared_libs() {
            let real = ns::maps(self.pid).iter().filter(|m| canon(&m.path) == canon(&r.path.to_string_lossy())).map(|m| m.start - m.offset).min();
            if let (Some(range), Some(base)) = (&r.range, real) {
                if range.from.as_u64() != base {
                    self.violate("sharedlib_range", format!("{}: listed from {:#x}, mapped at {base:#x}", r.path.display(), range.from.as_u64()));
                }
            }
        }
    }
}

pub fn run(spec: &WorkerSpec) -> WorkerResult {
    let mut tape = match &spec.tape {
        Some(t) => Tape::replay(t.clone()),
        None => Tape::record(spec.seed),
    };
    let liba = spec.params.get("liba").and_then(|v| v.as_str()).unwrap_or("").to_string();
    let libb = spec.params.get("libb").and_then(|v| v.as_str()).unwrap_or("").to_string();
    let counts: Vec<u64> = spec.params.get("counts").and_then(|v| v.as_array()).map(|a| a.iter().filter_map(|x| x.as_u64()).collect()).unwrap_or_default();
    if counts.len() != 4 {
        return WorkerResult { verdict: "harness_error".into(), detail: "no call counts".into(), ..Default::default() };
    }
    seam::start_recording();
    bugstalker::debugger::rust::Environment::init(None);
    let (_r, w) = os_pipe::pipe().unwrap();
    let runner = Child::new(spec.bin.clone(), Vec::<String>::new(), None::<&Path>, w.try_clone().unwrap(), w);
    let process = match runner.install() {
        Ok(p) => p,
        Err(e) => return WorkerResult { verdict: "harness_error".into(), detail: format!("install: {e}"), ..Default::default() },
    };
    let mut dbg = match DebuggerBuilder::<NopHook>::new().build(process) {
        Ok(d) => d,
        Err(e) => return WorkerResult { verdict: "harness_error".into(), detail: format!("build: {e}"), ..Default::default() },
    };
    drop(runner);
    let mut s = S { spec, liba, libb, pid: 0, log: vec![], stats: BTreeMap::new(), violations: vec![], step: 0 };
    let _ = (&s.liba, &s.libb, s.spec);
    // the user's plan
    let a_pre = tape.chance(2, 3); // liba_work requested before start (else at the first stop in main)
    let b_mode = tape.choose(3); // 0: deferred before start, 1: deferred at the first stop, 2: never
    let inner_too = tape.chance(1, 3);
    let do_finish = tape.chance(1, 3);
    // ask again for the (then unloaded) dlopen library while stopped between its two lives
    let redefer = tape.chance(1, 2);
    // (restart with breakpoints in a dlopen'ed library is not part of this leg: what the user
    // may expect of a breakpoint whose library is not mapped at the start of the new life is not
    // fixed by the property)
    let do_restart = false && tape.chance(1, 4);
    let mut armed_a = false;
    let mut armed_b = false;
    let mut armed_main = false;
    if a_pre {
        match dbg.set_breakpoint_at_fn("liba_work") {
            Ok(v) if !v.is_empty() => {
                armed_a = true;
                s.log.push("  break liba_work (before start)".into());
            }
            _ => {
                dbg.add_deferred_at_function("liba_work");
                armed_a = true;
                bump(&mut s.stats, "c18.deferred_requested");
                s.log.push("  break liba_work (before start, deferred)".into());
            }
        }
    } else {
        let _ = dbg.set_breakpoint_at_fn("main");
        armed_main = true;
        s.log.push("  break main (before start)".into());
    }
    if b_mode == 0 {
        if dbg.set_breakpoint_at_fn("libb_work").map(|v| v.is_empty()).unwrap_or(true) {
            dbg.add_deferred_at_function("libb_work");
            bump(&mut s.stats, "c18.deferred_requested");
        }
        armed_b = true;
        s.log.push("  break libb_work (before start, deferred)".into());
    }
    // expected sequence of library stops, in call order
    let mut lives = if do_restart { 2 } else { 1 };
    let mut first_life = true;
    while lives > 0 {
        lives -= 1;
        let mut expected: Vec<&str> = vec![];
        let mut r = if first_life { dbg.start_debugee_with_reason() } else { dbg.restart_debugee().and_then(|_| Ok(StopReason::DebugeeStart)) };
        s.pid = ns::all_processes().into_iter().filter(|(p, st, _)| *p > 2 && *st == 't').map(|(p, _, _)| p).max().unwrap_or(0);
        if !first_life {
            // after a restart the debugger has already run to the first stop: find out where we are
            bump(&mut s.stats, "c18.restarts");
            r = Ok(match raw::getregs(s.pid).ok().and_then(|g| s.locate(g.rip)) {
                Some(_) => StopReason::Breakpoint(nix::unistd::Pid::from_raw(s.pid), bugstalker::debugger::address::RelocatedAddress::from(raw::getregs(s.pid).map(|g| g.rip).unwrap_or(0))),
                None => StopReason::DebugeeExit(-1),
            });
        }
        if armed_main && first_life {
            // first stop is in main: now ask for the rest
            match &r {
                Ok(StopReason::Breakpoint(..)) => {
                    s.log.push("  start -> stop in main".into());
                    s.check_sharedlibs(&dbg);
                    if dbg.set_breakpoint_at_fn("liba_work").map(|v| !v.is_empty()).unwrap_or(false) {
                        armed_a = true;
                        s.log.push("  break liba_work (library already loaded)".into());
                    } else {
                        s.violate("breakpoint_in_loaded_library_refused", "liba is mapped, yet a breakpoint at liba_work could not be set".into());
                    }
                    if b_mode == 1 {
                        if dbg.set_breakpoint_at_fn("libb_work").map(|v| v.is_empty()).unwrap_or(true) {
                            dbg.add_deferred_at_function("libb_work");
                            bump(&mut s.stats, "c18.deferred_requested");
                        }
                        armed_b = true;
                        s.log.push("  break libb_work (deferred, library not loaded yet)".into());
                    }
                    let _ = dbg.remove_breakpoint_at_fn("main");
                    armed_main = false;
                    r = dbg.continue_debugee_with_reason();
                }
                other => {
                    s.violate("missed_stop_in_main", format!("{other:?}"));
                }
            }
        }
        if inner_too && armed_a && first_life {
            // (set while running or before: both must work)
        }
        let (a1, b1, a2, b2) = (counts[0], counts[1], counts[2], counts[3]);
        if armed_a {
            for _ in 0..a1 {
                expected.push("liba_work");
            }
        }
        if armed_b {
            for _ in 0..b1 {
                expected.push("libb_work");
            }
        }
        if armed_a {
            for _ in 0..a2 {
                expected.push("liba_work");
            }
        }
        let redefer_now = redefer && armed_b && a2 > 0 && armed_a;
        // stops in the library after it was unloaded and loaded again are accepted, not demanded
        // (the property speaks of the library appearing, not of re-arming across dlclose)
        let mandatory = expected.len() + if armed_b && b1 == 0 { 0 } else { 0 };
        let first_b_load_has_calls = b1 > 0;
        if armed_b {
            for _ in 0..b2 {
                expected.push("libb_work");
            }
        }
        let first_a2_stop = if armed_a { (a1 + if armed_b { b1 } else { 0 }) as usize } else { usize::MAX };
        let mandatory = if redefer_now { expected.len() } else { mandatory };
        let mut k = 0;
        loop {
            s.step += 1;
            match &r {
                Ok(StopReason::DebugeeExit(code)) => {
                    if k < mandatory {
                        s.violate(if expected[k].starts_with("libb") { "deferred_breakpoint_never_hit" } else { "missed_library_stop" }, format!("the program ended (exit {code}) after {k} of {} expected library stops; next expected `{}`", expected.len(), expected[k]));
                    }
                    if k >= mandatory && k < expected.len() {
                        bump(&mut s.stats, "c18.no_stop_after_reload_accepted");
                    }
                    s.log.push(format!("  -> exit({code}) after {k} library stops"));
                    break;
                }
                Ok(reason) => {
                    if k >= expected.len() {
                        s.violate("spurious_library_stop", format!("all {} expected stops seen, yet another stop: {reason:?}", expected.len()));
                        break;
                    }
                    s.log.push(format!("  -> stop {} (expected in {})", k + 1, expected[k]));
                    s.check_stop(&dbg, reason, expected[k]);
                    if redefer_now && k == first_a2_stop {
                        // the library is unloaded right now: a breakpoint in it can only be deferred
                        let _ = dbg.remove_breakpoint_at_fn("libb_work");
                        if dbg.set_breakpoint_at_fn("libb_work").map(|v| v.is_empty()).unwrap_or(true) {
                            dbg.add_deferred_at_function("libb_work");
                        }
                        bump(&mut s.stats, "c18.deferred_requested_between_two_loads");
                        s.log.push("  break libb_work (deferred again, library currently unloaded)".into());
                    }
                    if expected[k].starts_with("libb") {
                        bump(&mut s.stats, "c18.stops_in_dlopened_library");
                    } else {
                        bump(&mut s.stats, "c18.stops_in_startup_library");
                    }
                    if do_finish && k % 2 == 0 {
                        // out of the library function, back into the driver
                        if dbg.step_out().is_ok() {
                            let rip = raw::getregs(s.pid).map(|g| g.rip).unwrap_or(0);
                            let want = if expected[k].starts_with("libb") { "call_b" } else { "main" };
                            match s.locate(rip) {
                                Some((_, f, _)) if f.contains(want) => bump(&mut s.stats, "c18.finish_out_of_library_checked"),
                                other => s.violate("finish_out_of_library", format!("finish from `{}` landed in {other:?}, expected `{want}`", expected[k])),
                            }
                        }
                    }
                    k += 1;
                    if k > 60 {
                        break;
                    }
                }
                Err(e) => {
                    s.violate("continue_failed", format!("{e}"));
                    break;
                }
            }
            r = dbg.continue_debugee_with_reason();
        }
        first_life = false;
        if !s.violations.is_empty() {
            break;
        }
    }
    drop(dbg);
    bump(&mut s.stats, "c18.sessions");
    let verdict = if s.violations.is_empty() { "ok" } else { "violation" };
    let mut log = vec![format!("plan: a_pre={a_pre} b_mode={b_mode} finish={do_finish} restart={do_restart} counts={counts:?}")];
    log.extend(s.log.clone());
    WorkerResult { verdict: verdict.into(), violations: s.violations.clone(), detail: String::new(), log, tape: tape.rec.clone(), stats: s.stats.clone(), ops: s.step + 3, seam_calls: seam::N_PTRACE.load(std::sync::atomic::Ordering::Relaxed) + seam::N_WAIT.load(std::sync::atomic::Ordering::Relaxed) }
}

/// Build the corpus of this leg: per toolchain two libraries and a few drivers.
pub fn corpus(seed: u64, per_toolchain: usize) -> Vec<(ProgramSpec, compile::Built, String, String, [u32; 4])> {
    let mut out = vec![];
    for tc in ["1.89", "stable", "nightly"] {
        let (Ok(a), Ok(b), Ok(x)) = (compile::build(&lib_program("liba", tc)), compile::build(&lib_program("libb", tc)), compile::build(&lib_program("libx", tc))) else { continue };
        for k in 0..per_toolchain {
            let mut t = Tape::record(crate::rng::derive(seed, "prog.libdriver", (k * 7) as u64 + tc.len() as u64));
            let counts = [1 + t.choose(3) as u32, t.choose(3) as u32, t.choose(3) as u32, 1 + t.choose(2) as u32];
            let p = driver_program(tc, &a.bin, &b.bin, &x.bin, counts);
            if let Ok(built) = compile::build(&p) {
                out.push((p, built, a.bin.to_string_lossy().to_string(), b.bin.to_string_lossy().to_string(), counts));
            }
        }
    }
    out
}

//! Reference tracer and `RefExec`: an independently recorded execution of a debuggee.
//! No BugStalker code is involved: fork, PTRACE_TRACEME, personality(ADDR_NO_RANDOMIZE), same
//! argv/env as the debugger will use, full speed to `main`, then PTRACE_SINGLESTEP inside the
//! executable's own code; foreign code (libc, ld.so) is crossed at full speed with a temporary
//! INT3 at the return address.

use crate::seam::{self, raw};
use serde::{Deserialize, Serialize};
use std::collections::HashSet;
use std::ffi::CString;
use std::path::Path;

pub const FIXED_ENV: &[(&str, &str)] = &[("PATH", "/usr/local/bin:/usr/bin:/bin"), ("HOME", "/root"), ("RAYON_NUM_THREADS", "1"), ("LANG", "C")];

#[derive(Clone, Copy, Debug, Serialize, Deserialize, PartialEq)]
pub struct Pos {
    pub rip: u64,
    pub rsp: u64,
    pub tick: u64,
    pub act: u32,
    /// execution leaves traced code (into libc / ld.so) right after this position
    #[serde(default)]
    pub fa: bool,
}

#[derive(Clone, Debug, Serialize, Deserialize)]
pub struct Act {
    pub parent: Option<u32>,
    /// return address (absolute)
    pub ret: u64,
    /// address of the return slot (= rsp at entry); CFA = slot + 8
    pub slot: u64,
    pub entry_idx: usize,
    pub entry_rip: u64,
    pub args: [u64; 6],
    /// index of the first recorded position after this activation returned (None: never / exit)
    pub ret_idx: Option<usize>,
    pub depth: u32,
    /// entered by a tail jump from its parent (shares the parent's return slot)
    #[serde(default)]
    pub tail: bool,
}

#[derive(Clone, Debug, Serialize, Deserialize)]
pub struct RefTrace {
    pub base: u64,
    pub text_lo: u64,
    pub text_hi: u64,
    pub tick_addr: u64,
    pub main_addr: u64,
    pub pos: Vec<Pos>,
    pub acts: Vec<Act>,
    pub stdout: String,
    pub exit_code: i32,
    /// (rip,rsp,tick) identifies a position uniquely
    pub unique: bool,
    pub steps: u64,
    pub foreign_crossings: u64,
}

pub struct ElfInfo {
    pub main: u64,
    pub tick: Option<u64>,
    pub text_lo: u64,
    pub text_hi: u64,
    pub entry: u64,
    pub is_pie: bool,
    pub symbols: Vec<(String, u64, u64)>,
    /// data symbols by name
    pub data: std::collections::BTreeMap<String, u64>,
}

pub fn elf_info(path: &Path) -> Result<ElfInfo, String> {
    use object::{Object, ObjectSegment, ObjectSymbol};
    let data = std::fs::read(path).map_err(|e| e.to_string())?;
    let obj = object::File::parse(&*data).map_err(|e| e.to_string())?;
    let mut main = 0;
    let mut tick = None;
    let mut symbols = vec![];
    let mut data_syms = std::collections::BTreeMap::new();
    for s in obj.symbols() {
        let n = s.name().unwrap_or("");
        if n == "main" {
            main = s.address();
        }
        if n == "TICK" {
            tick = Some(s.address());
        }
        if s.kind() == object::SymbolKind::Data && !n.is_empty() {
            data_syms.insert(n.to_string(), s.address());
        }
        if s.kind() == object::SymbolKind::Text && s.size() > 0 {
            symbols.push((n.to_string(), s.address(), s.size()));
        }
    }
    let (mut lo, mut hi) = (u64::MAX, 0);
    for seg in obj.segments() {
        if let object::SegmentFlags::Elf { p_flags } = seg.flags() {
            if p_flags & 1 != 0 {
                lo = lo.min(seg.address());
                hi = hi.max(seg.address() + seg.size());
            }
        }
    }
    let is_pie = matches!(obj.kind(), object::ObjectKind::Dynamic);
    Ok(ElfInfo { main, tick, text_lo: lo, text_hi: hi, entry: obj.entry(), is_pie, symbols, data: data_syms })
}

fn peek(pid: i32, a: u64) -> Option<u64> {
    raw::peek(seam::PTRACE_PEEKDATA, pid, a).ok()
}
fn poke(pid: i32, a: u64, v: u64) {
    unsafe { raw::ptrace(seam::PTRACE_POKEDATA, pid, a, v) };
}
fn wait(pid: i32) -> i32 {
    let mut st = 0;
    loop {
        let r = raw::wait4(pid, &mut st, libc::__WALL);
        if r == pid {
            return st;
        }
        if r < 0 && raw::errno() != libc::EINTR {
            return -1;
        }
    }
}
fn stopped(st: i32) -> bool {
    st >= 0 && libc::WIFSTOPPED(st)
}

/// Run at full speed to `addr` (temporary INT3).  Returns false if the process ended first.
fn run_to(pid: i32, addr: u64, exit: &mut Option<i32>) -> bool {
    let Some(orig) = peek(pid, addr) else { return false };
    poke(pid, addr, (orig & !0xff) | 0xcc);
    let mut sig = 0u64;
    loop {
        unsafe { raw::ptrace(seam::PTRACE_CONT, pid, 0, sig) };
        let st = wait(pid);
        if !stopped(st) {
            *exit = Some(if st >= 0 && libc::WIFEXITED(st) { libc::WEXITSTATUS(st) } else { -1 });
            return false;
        }
        let s = libc::WSTOPSIG(st);
        if s == libc::SIGTRAP {
            break;
        }
        sig = s as u64; // pass other signals through
    }
    let mut r = raw::getregs(pid).unwrap();
    r.rip -= 1;
    raw::setregs(pid, &r).unwrap();
    poke(pid, addr, orig);
    true
}

fn is_call_at(pid: i32, rip: u64) -> bool {
    let Some(w) = peek(pid, rip) else { return false };
    let b = w.to_le_bytes();
    let mut i = 0;
    // optional prefixes (REX, segment, 66/67, bnd)
    while i < 4 && (matches!(b[i], 0x40..=0x4f) || matches!(b[i], 0x2e | 0x3e | 0x26 | 0x36 | 0x64 | 0x65 | 0x66 | 0x67 | 0xf2 | 0xf3)) {
        i += 1;
    }
    b[i] == 0xe8 || (b[i] == 0xff && (b[i + 1] >> 3) & 7 == 2)
}

pub fn child_exec(path: &Path, args: &[String], out_file: Option<&Path>, extra_env: &[(String, String)]) -> ! {
    unsafe {
        libc::personality(0x0040000); // ADDR_NO_RANDOMIZE
        raw::ptrace(0 /*TRACEME*/, 0, 0, 0);
        if let Some(o) = out_file {
            let c = CString::new(o.to_str().unwrap()).unwrap();
            let fd = libc::open(c.as_ptr(), libc::O_WRONLY | libc::O_CREAT | libc::O_TRUNC, 0o644);
            libc::dup2(fd, 1);
            libc::dup2(fd, 2);
        }
        let c = CString::new(path.to_str().unwrap()).unwrap();
        let mut argv_c: Vec<CString> = vec![c.clone()];
        for a in args {
            argv_c.push(CString::new(a.as_str()).unwrap());
        }
        let mut argv: Vec<*const libc::c_char> = argv_c.iter().map(|c| c.as_ptr()).collect();
        argv.push(std::ptr::null());
        let env_c: Vec<CString> = FIXED_ENV
            .iter()
            .map(|(k, v)| (k.to_string(), v.to_string()))
            .chain(extra_env.iter().cloned())
            .map(|(k, v)| CString::new(format!("{k}={v}")).unwrap())
            .collect();
        let mut envp: Vec<*const libc::c_char> = env_c.iter().map(|c| c.as_ptr()).collect();
        envp.push(std::ptr::null());
        libc::execve(c.as_ptr(), argv.as_ptr(), envp.as_ptr());
        libc::_exit(127)
    }
}

/// Set the environment of the *current* process to exactly the fixed set (worker start-up);
/// the debuggee launched by the debugger inherits it, so its initial stack equals the
/// reference run's.
pub fn pin_environment(extra: &[(String, String)]) {
    let keys: Vec<String> = std::env::vars_os().map(|(k, _)| k.to_string_lossy().to_string()).collect();
    for k in keys {
        unsafe { std::env::remove_var(k) };
    }
    for (k, v) in FIXED_ENV {
        unsafe { std::env::set_var(k, v) };
    }
    for (k, v) in extra {
        unsafe { std::env::set_var(k, v) };
    }
}

pub const MAX_POS: usize = 400_000;

pub fn trace(path: &Path, args: &[String]) -> Result<RefTrace, String> {
    let info = elf_info(path)?;
    let tick_g = info.tick.ok_or("no TICK symbol")?;
    let out_path = crate::compile::cache_dir().join(format!("ref_{}_{:x}.out", std::process::id(), crate::compile::hash_str(&path.to_string_lossy())));
    let pid = unsafe { libc::fork() };
    if pid < 0 {
        return Err("fork".into());
    }
    if pid == 0 {
        child_exec(path, args, Some(&out_path), &[]);
    }
    let st = wait(pid);
    if !stopped(st) {
        return Err("child did not stop at exec".into());
    }
    unsafe { raw::ptrace(0x4200 /*SETOPTIONS*/, pid, 0, 0x0010_0000 /*EXITKILL*/) };
    // base address
    let base = if info.is_pie {
        let m = crate::ns::maps(pid);
        let p = path.to_str().unwrap();
        m.iter().filter(|e| e.path == p).map(|e| e.start - e.offset).min().ok_or("no mapping of exe")?
    } else {
        0
    };
    let (lo, hi) = (base + info.text_lo, base + info.text_hi);
    let tick_addr = base + tick_g;
    let mut exit: Option<i32> = None;
    if !run_to(pid, base + info.main, &mut exit) {
        return Err("process ended before main".into());
    }
    let mut pos: Vec<Pos> = Vec::new();
    let mut acts: Vec<Act> = Vec::new();
    let mut stack: Vec<u32> = Vec::new();
    let r0 = raw::getregs(pid).map_err(|e| format!("getregs {e}"))?;
    acts.push(Act { parent: None, ret: peek(pid, r0.rsp).unwrap_or(0), slot: r0.rsp, entry_idx: 0, entry_rip: r0.rip, args: [r0.rdi, r0.rsi, r0.rdx, r0.rcx, r0.r8, r0.r9], ret_idx: None, depth: 0, tail: false });
    stack.push(0);
    let mut prev: Option<(u64, u64)> = None; // (rip, rsp) of the previous in-text stop
    let mut steps = 0u64;
    let fn_starts: HashSet<u64> = info.symbols.iter().map(|(_, a, _)| base + a).collect();
    let mut foreign = 0u64;
    'outer: loop {
        let r = match raw::getregs(pid) {
            Ok(r) => r,
            Err(_) => break,
        };
        // returns: an activation whose return slot lies below rsp is gone
        while let Some(&top) = stack.last() {
            if acts[top as usize].slot < r.rsp {
                acts[top as usize].ret_idx = Some(pos.len());
                stack.pop();
            } else {
                break;
            }
        }
        if r.rip < lo || r.rip >= hi {
            // foreign code: run to the return address if it is ours
            foreign += 1;
            if let Some(p) = pos.last_mut() {
                p.fa = true;
            }
            if stack.is_empty() {
                // main returned into libc: run to the end
                break;
            }
            let ret = peek(pid, r.rsp).unwrap_or(0);
            if ret >= lo && ret < hi {
                if !run_to(pid, ret, &mut exit) {
                    break 'outer;
                }
                prev = None;
                continue;
            }
            // entered foreign code without a return address of ours on top (tail call from a
            // frame that will return into libc): nothing more to trace
            break;
        }
        // call detection
        if let Some((prip, prsp)) = prev {
            let mut called = false;
            if r.rsp == prsp.wrapping_sub(8) {
                if let Some(w) = peek(pid, r.rsp) {
                    if w > prip && w <= prip + 15 && r.rip != w && is_call_at(pid, prip) {
                        let parent = stack.last().copied();
                        let id = acts.len() as u32;
                        acts.push(Act { parent, ret: w, slot: r.rsp, entry_idx: pos.len(), entry_rip: r.rip, args: [r.rdi, r.rsi, r.rdx, r.rcx, r.r8, r.r9], ret_idx: None, depth: stack.len() as u32, tail: false });
                        stack.push(id);
                        called = true;
                    }
                }
            }
            // tail call: a jump to a function entry with the stack pointer back at the
            // activation's entry value; the callee shares the return slot of its parent
            if !called && fn_starts.contains(&r.rip) && r.rip != prip {
                if let Some(&top) = stack.last() {
                    if acts[top as usize].slot == r.rsp && pos.len() > acts[top as usize].entry_idx {
                        let id = acts.len() as u32;
                        let (ret, slot) = (acts[top as usize].ret, acts[top as usize].slot);
                        acts.push(Act { parent: Some(top), ret, slot, entry_idx: pos.len(), entry_rip: r.rip, args: [r.rdi, r.rsi, r.rdx, r.rcx, r.r8, r.r9], ret_idx: None, depth: stack.len() as u32, tail: true });
                        stack.push(id);
                    }
                }
            }
        }
        if stack.is_empty() {
            break;
        }
        let tick = peek(pid, tick_addr).unwrap_or(0);
        let act = *stack.last().unwrap();
        let dup = pos.last().map(|p| p.rip == r.rip && p.rsp == r.rsp && p.tick == tick).unwrap_or(false);
        if !dup {
            pos.push(Pos { rip: r.rip, rsp: r.rsp, tick, act, fa: false });
            if pos.len() > MAX_POS {
                unsafe { libc::kill(pid, libc::SIGKILL) };
                wait(pid);
                let _ = std::fs::remove_file(&out_path);
                return Err("trace too long".into());
            }
        }
        prev = Some((r.rip, r.rsp));
        steps += 1;
        unsafe { raw::ptrace(seam::PTRACE_SINGLESTEP, pid, 0, 0) };
        let st = wait(pid);
        if !stopped(st) {
            exit = Some(if st >= 0 && libc::WIFEXITED(st) { libc::WEXITSTATUS(st) } else { -1 });
            break;
        }
    }
    // let it run to completion
    if exit.is_none() {
        loop {
            unsafe { raw::ptrace(seam::PTRACE_CONT, pid, 0, 0) };
            let st = wait(pid);
            if st < 0 {
                exit = Some(-1);
                break;
            }
            if libc::WIFEXITED(st) {
                exit = Some(libc::WEXITSTATUS(st));
                break;
            }
            if libc::WIFSIGNALED(st) {
                exit = Some(-(libc::WTERMSIG(st)));
                break;
            }
        }
    }
    let stdout = std::fs::read_to_string(&out_path).unwrap_or_default();
    let _ = std::fs::remove_file(&out_path);
    let mut seen = HashSet::with_capacity(pos.len());
    let unique = pos.iter().all(|p| seen.insert((p.rip, p.rsp, p.tick)));
    Ok(RefTrace { base, text_lo: lo, text_hi: hi, tick_addr, main_addr: base + info.main, pos, acts, stdout, exit_code: exit.unwrap_or(-1), unique, steps, foreign_crossings: foreign })
}

/// Cached reference trace for a built program.
pub fn trace_cached(bin: &Path) -> Result<RefTrace, String> {
    let cache = bin.with_extension("trace3.json");
    if let Ok(s) = std::fs::read_to_string(&cache) {
        if let Ok(t) = serde_json::from_str::<RefTrace>(&s) {
            return Ok(t);
        }
    }
    let t = trace(bin, &[])?;
    let tmp = bin.with_extension(format!("trace.tmp{}", std::process::id()));
    std::fs::write(&tmp, serde_json::to_string(&t).unwrap()).map_err(|e| e.to_string())?;
    std::fs::rename(&tmp, &cache).map_err(|e| e.to_string())?;
    Ok(t)
}

impl RefTrace {
    /// Activation stack (innermost first) at position `i`.
    pub fn stack_at(&self, i: usize) -> Vec<u32> {
        let mut v = vec![];
        let mut a = Some(self.pos[i].act);
        while let Some(x) = a {
            v.push(x);
            a = self.acts[x as usize].parent;
        }
        v
    }
    pub fn depth(&self, i: usize) -> u32 {
        self.acts[self.pos[i].act as usize].depth
    }
    /// Is activation `a` still on the stack at position `i`?
    pub fn act_alive_at(&self, a: u32, i: usize) -> bool {
        let act = &self.acts[a as usize];
        i >= act.entry_idx && act.ret_idx.map(|r| i < r).unwrap_or(true)
    }
    /// Is `anc` equal to or a caller of the activation of position `i`?
    pub fn is_self_or_caller(&self, anc: u32, i: usize) -> bool {
        let mut a = Some(self.pos[i].act);
        while let Some(x) = a {
            if x == anc {
                return true;
            }
            a = self.acts[x as usize].parent;
        }
        false
    }
    pub fn find(&self, from: usize, rip: u64, rsp: u64, tick: u64) -> Option<usize> {
        (from..self.pos.len()).find(|&j| {
            let p = &self.pos[j];
            p.rip == rip && p.rsp == rsp && p.tick == tick
        })
    }
    /// first index > `after` (or >= 0 when `after` is None) whose rip is in `set`
    pub fn next_in(&self, after: Option<usize>, set: &std::collections::BTreeSet<u64>) -> Option<usize> {
        let from = after.map(|a| a + 1).unwrap_or(0);
        (from..self.pos.len()).find(|&j| set.contains(&self.pos[j].rip))
    }
    /// entry address of the function an activation runs (identity of the function)
    pub fn fn_of_act(&self, a: u32) -> u64 {
        self.acts[a as usize].entry_rip
    }
    pub fn foreign_after(&self, i: usize) -> bool {
        self.pos[i].fa
    }
    pub fn in_text(&self, rip: u64) -> bool {
        rip >= self.text_lo && rip < self.text_hi
    }
}

//! C13: DAP breakpoint requests replace, and their options are honoured whenever set.
//!
//! A simulated client drives the real `DebugSession` through histories of setBreakpoints /
//! setFunctionBreakpoints / setInstructionBreakpoints (with condition, hitCondition, logMessage)
//! interleaved with launch, configurationDone, continue and restart.  What a request denotes is
//! taken from the *core* (a twin `Debugger` on the same binary, asked before the session exists):
//! the adapter is checked as a refinement of the core.  Where the program must stop next is taken
//! from the reference execution; where it really is, is read by the harness (registers, TICK);
//! which addresses are really patched is read from the process text.

use crate::dap::{Driver, Rec, short};
use crate::ns;
use crate::reftrace::{self, RefTrace};
use crate::rng::Tape;
use crate::seam::raw;
use crate::worker::{Violation, WorkerSpec};
use bugstalker::debugger::address::Address;
use bugstalker::debugger::process::Child;
use bugstalker::debugger::{DebuggerBuilder, NopHook};
use serde_json::{Value, json};
use std::collections::{BTreeMap, BTreeSet};
use std::path::Path;

#[derive(Clone, Debug, PartialEq)]
enum Opt {
    None,
    Cond(String),
    Hit(u64),
    Log(String),
}

#[derive(Clone, Debug)]
enum What {
    Line(u64),
    Func(String),
    Instr(u64),
}

#[derive(Clone, Debug)]
struct BpSpec {
    what: What,
    opt: Opt,
    addrs: Vec<u64>,
    hits: u64,
    /// created before the process existed
    prestart: bool,
}

#[derive(Clone, Debug, PartialEq)]
enum Last {
    None,
    Set(usize), // 0 lines, 1 functions, 2 instructions
    Run { from: usize, what: &'static str },
    Other,
}

#[derive(Debug)]
enum Expect {
    Stop(usize),
    Exit,
    Unknown,
}

pub struct BpDriver {
    program: String,
    source: String,
    tr: RefTrace,
    lt: crate::linetab::LineTable,
    base: u64,
    entry: u64,
    line_addrs: BTreeMap<u64, Vec<u64>>,
    fn_addrs: BTreeMap<String, Vec<u64>>,
    lines: Vec<u64>,
    functions: Vec<String>,
    sets: [Vec<BpSpec>; 3],
    next_seq: i64,
    sent: usize,
    max: usize,
    done: bool,
    phase: u8, // 0 init, 1 launch, 2 pre-start, 3 configurationDone, 4 running, 5 disconnect
    pre_left: usize,
    last: Last,
    seen: usize,
    pos: Option<usize>,
    started: bool,
    exited: bool,
    desync: bool,
    restarts: usize,
    expect_logs: Vec<String>,
    pending_expect: Option<Expect>,
    violations: Vec<Violation>,
    stats: BTreeMap<String, u64>,
    notes: Vec<String>,
}

fn bump(m: &mut BTreeMap<String, u64>, k: &str) {
    *m.entry(k.to_string()).or_default() += 1;
}

impl BpDriver {
    pub fn new(spec: &WorkerSpec, max: usize) -> Result<Self, String> {
        let bin = Path::new(&spec.bin);
        let tr = reftrace::trace_cached(bin)?;
        let lt = crate::linetab::load(bin)?;
        let file_id = lt.file_id(&spec.src_file).ok_or("source file not in line table")?;
        let lines: Vec<u64> = lt.stmt_lines(file_id).into_iter().collect();
        let info = reftrace::elf_info(bin)?;
        // the core's answer to "which addresses does this request denote?" (computed once per
        // binary by `bssim denote`, in a process of its own)
        let den: Value = std::fs::read_to_string(bin.with_extension("denote.json")).ok().and_then(|s| serde_json::from_str(&s).ok()).ok_or("no denotation cache (bssim denote)")?;
        let (mut line_addrs, mut fn_addrs) = (BTreeMap::new(), BTreeMap::new());
        for (k, v) in den["lines"].as_object().cloned().unwrap_or_default() {
            let a: Vec<u64> = v.as_array().map(|a| a.iter().filter_map(|x| x.as_u64()).map(|g| tr.base + g).collect()).unwrap_or_default();
            line_addrs.insert(k.parse::<u64>().unwrap_or(0), a);
        }
        for (k, v) in den["functions"].as_object().cloned().unwrap_or_default() {
            let a: Vec<u64> = v.as_array().map(|a| a.iter().filter_map(|x| x.as_u64()).map(|g| tr.base + g).collect()).unwrap_or_default();
            fn_addrs.insert(k, a);
        }
        let source = bin.with_extension("rs").to_string_lossy().to_string();
        let mut functions = spec.program.functions.clone();
        functions.push("no_such_fn_zz".into());
        Ok(BpDriver {
            program: spec.bin.clone(),
            source,
            base: tr.base,
            entry: tr.base + info.entry,
            tr,
            lt,
            line_addrs,
            fn_addrs,
            lines,
            functions,
            sets: [vec![], vec![], vec![]],
            next_seq: 1,
            sent: 0,
            max,
            done: false,
            phase: 0,
            pre_left: 0,
            last: Last::None,
            seen: 0,
            pos: None,
            started: false,
            exited: false,
            desync: false,
            restarts: 0,
            expect_logs: vec![],
            pending_expect: None,
            violations: vec![],
            stats: BTreeMap::new(),
            notes: vec![],
        })
    }

    fn violate(&mut self, inv: &str, d: String) {
        self.notes.push(format!("  !! C13:{inv} {d}"));
        self.violations.push(Violation { property: "C13".into(), invariant: inv.into(), detail: d, step: self.sent });
    }

    fn req(&mut self, command: &str, arguments: Value) -> Value {
        let seq = self.next_seq;
        self.next_seq += 1;
        json!({"seq": seq, "type": "request", "command": command, "arguments": arguments})
    }

    fn off(&self, a: u64) -> String {
        if self.tr.in_text(a) { format!("+{:x}", a - self.base) } else { format!("{a:#x}") }
    }

    /// the debuggee as the kernel sees it
    fn debuggee_pid(&self) -> Option<i32> {
        let name = Path::new(&self.program).file_name()?.to_string_lossy().to_string();
        ns::all_processes().into_iter().filter(|(p, st, comm)| *p > 2 && *st == 't' && name.starts_with(comm.as_str())).map(|(p, _, _)| p).max()
    }

    fn observe(&self, from: usize) -> Option<usize> {
        let pid = self.debuggee_pid()?;
        let regs = raw::getregs(pid).ok()?;
        let tick = ns::read_u64(pid, self.tr.tick_addr)?;
        self.tr.find(from, regs.rip, regs.rsp, tick)
    }

    fn patched(&self) -> Option<BTreeSet<u64>> {
        let pid = self.debuggee_pid()?;
        let mut out = BTreeSet::new();
        // executable mappings, and the read-only first segment (ELF header, dynamic tables): the line
        // table of a program with dead-stripped instantiations has rows at addresses 0.., and a
        // breakpoint the debugger resolves to such a row is written there (RELRO pages differ
        // from the file by relocation and are not compared)
        for m in ns::maps(pid).iter().filter(|m| m.path == self.program && (m.perms.contains('x') || (!m.perms.contains('w') && m.offset == 0))) {
            let file = std::fs::read(&m.path).ok()?;
            let len = (m.end - m.start) as usize;
            let mem = ns::read_mem(pid, m.start, len)?;
            let off = m.offset as usize;
            if off >= file.len() {
                continue;
            }
            for k in 0..len.min(file.len() - off) {
                if mem[k] != file[off + k] {
                    out.insert(m.start + k as u64);
                }
            }
        }
        Some(out)
    }

    fn all_addrs(&self) -> BTreeSet<u64> {
        self.sets.iter().flat_map(|s| s.iter()).flat_map(|b| b.addrs.iter().copied()).collect()
    }

    fn truth(cond: &str, tick: u64) -> bool {
        match cond {
            "true" | "1" => true,
            "false" | "0" => false,
            "TICK" => tick != 0,
            _ => true,
        }
    }

    /// Where must a run that starts at `from` end?  Updates hit counts and expected log lines.
    fn walk(&mut self, from: usize) -> Expect {
        let addrs = self.all_addrs();
        for j in from..self.tr.pos.len() {
            let p = self.tr.pos[j];
            if !addrs.contains(&p.rip) {
                continue;
            }
            let mut owners: Vec<(usize, usize)> = vec![];
            for (si, set) in self.sets.iter().enumerate() {
                for (bi, b) in set.iter().enumerate() {
                    if b.addrs.contains(&p.rip) {
                        owners.push((si, bi));
                    }
                }
            }
            if owners.len() != 1 {
                return Expect::Unknown;
            }
            let (si, bi) = owners[0];
            let b = &mut self.sets[si][bi];
            b.hits += 1;
            match &b.opt {
                Opt::None => return Expect::Stop(j),
                Opt::Cond(c) => {
                    if Self::truth(c, p.tick) {
                        return Expect::Stop(j);
                    }
                }
                Opt::Hit(n) => {
                    if b.hits == *n {
                        return Expect::Stop(j);
                    }
                }
                Opt::Log(m) => self.expect_logs.push(m.clone()),
            }
        }
        Expect::Exit
    }

    fn describe(&self, j: usize) -> String {
        let p = self.tr.pos[j];
        let mut who = vec![];
        for set in &self.sets {
            for b in set {
                if b.addrs.contains(&p.rip) {
                    who.push(format!("{:?}/{:?}{}", b.what, b.opt, if b.prestart { " set before start" } else { "" }));
                }
            }
        }
        format!("ref index {j} ({} tick {}) {}", self.off(p.rip), p.tick, who.join(","))
    }

    /// Judge what the adapter did with the previous request.
    fn digest(&mut self, records: &[Rec]) {
        let new: Vec<Rec> = records[self.seen.min(records.len())..].to_vec();
        self.seen = records.len();
        let writes: Vec<&Value> = new.iter().filter_map(|r| if let Rec::Write(m) = r { Some(m) } else { None }).collect();
        let last = std::mem::replace(&mut self.last, Last::None);
        match last {
            Last::Set(kind) => {
                let cmd = ["setBreakpoints", "setFunctionBreakpoints", "setInstructionBreakpoints"][kind];
                let rsp = writes.iter().find(|m| m["type"] == "response" && m["command"] == cmd);
                match rsp {
                    Some(r) if r["success"] == true => {
                        bump(&mut self.stats, "c13.set_requests_checked");
                        let arr = r["body"]["breakpoints"].as_array().cloned().unwrap_or_default();
                        if arr.len() != self.sets[kind].len() {
                            let n = self.sets[kind].len();
                            self.violate("response_shape", format!("{cmd}: {} breakpoints in the response for {n} requested", arr.len()));
                        }
                        for (k, b) in self.sets[kind].clone().iter().enumerate() {
                            let verified = arr.get(k).map(|x| x["verified"] == true).unwrap_or(false);
                            let installed = !b.addrs.is_empty();
                            if verified != installed {
                                self.violate(if verified { "verified_without_location" } else { "not_verified_but_location_exists" }, format!("{cmd} {:?}: verified={verified} but the core resolves it to {} location(s)", b.what, b.addrs.len()));
                            }
                        }
                    }
                    Some(r) => {
                        // refused as a whole (e.g. before launch): the model keeps nothing
                        self.notes.push(format!("  {cmd} refused: {}", short(r)));
                        self.sets[kind].clear();
                    }
                    None => {}
                }
                // the process text carries exactly the latest sets
                if self.started && !self.exited && !self.desync {
                    if let Some(p) = self.patched() {
                        let mut want = self.all_addrs();
                        want.insert(self.entry);
                        let stale: Vec<String> = p.difference(&want).map(|a| self.off(*a)).collect();
                        let missing: Vec<String> = want.difference(&p).filter(|a| **a != self.entry).map(|a| self.off(*a)).collect();
                        bump(&mut self.stats, "c13.text_checked_after_set");
                        if !stale.is_empty() {
                            let multi = self.sets.iter().flat_map(|s| s.iter()).any(|b| b.addrs.len() > 1);
                            self.violate(if multi { "stale_breakpoint_after_replace" } else { "stale_breakpoint_after_replace" }, format!("after {cmd} the text still carries INT3 at {stale:?}, which belongs to no breakpoint of the latest sets"));
                            self.desync = true;
                        }
                        if !missing.is_empty() {
                            self.violate("breakpoint_not_installed", format!("after {cmd} no INT3 at {missing:?} although the latest sets contain those locations"));
                            self.desync = true;
                        }
                    }
                }
            }
            Last::Run { from, what } => {
                let ok = writes.iter().any(|m| m["type"] == "response" && m["command"] == what && m["success"] == true);
                if !ok {
                    self.notes.push(format!("  {what} refused"));
                    self.pending_expect = None;
                    self.expect_logs.clear();
                    return;
                }
                let stopped: Vec<&&Value> = writes.iter().filter(|m| m["event"] == "stopped").collect();
                let exited = writes.iter().find(|m| m["event"] == "exited");
                let logs: Vec<String> = writes.iter().filter(|m| m["event"] == "output" && m["body"]["category"] == "console").filter_map(|m| m["body"]["output"].as_str().map(|s| s.trim_end().to_string())).collect();
                self.started = true;
                let expect = self.pending_expect.take().unwrap_or(Expect::Unknown);
                let want_logs = std::mem::take(&mut self.expect_logs);
                if exited.is_some() {
                    self.exited = true;
                }
                if self.desync {
                    self.pos = if self.exited { None } else { self.observe(0) };
                    return;
                }
                bump(&mut self.stats, "c13.runs_checked");
                match expect {
                    Expect::Unknown => {
                        bump(&mut self.stats, "c13.run_not_judged_ambiguous_owner");
                        self.pos = if self.exited { None } else { self.observe(0) };
                        self.desync = true;
                    }
                    Expect::Stop(j) => {
                        bump(&mut self.stats, "c13.expected_stop");
                        let real = if self.exited { None } else { self.observe(from.min(j)) };
                        if real == Some(j) && stopped.len() == 1 {
                            self.pos = Some(j);
                        } else {
                            let got = match (self.exited, real) {
                                (true, _) => "the program ran to its end".to_string(),
                                (false, Some(k)) => format!("stopped at {}", self.describe(k)),
                                (false, None) => "stopped at an unknown position".to_string(),
                            };
                            // name the mechanism by what was (not) honoured
                            let inv = match (self.exited, real) {
                                (false, Some(k)) if k < j => self.classify_early(k),
                                _ => self.classify_missed(j),
                            };
                            let d = format!("after `{what}` the program must stop at {}; {got} ({} stopped events)", self.describe(j), stopped.len());
                            self.violate(&inv, d);
                            self.desync = true;
                            self.pos = real;
                        }
                    }
                    Expect::Exit => {
                        bump(&mut self.stats, "c13.expected_exit");
                        if !self.exited {
                            let real = self.observe(from);
                            let got = real.map(|k| self.describe(k)).unwrap_or("unknown position".into());
                            let inv = match real {
                                Some(k) => self.classify_early(k),
                                None => "spurious_stop".into(),
                            };
                            self.violate(&inv, format!("after `{what}` no location of the latest sets remains ahead (conditions, hit counts and logpoints considered), the program must run to its end; it stopped at {got}"));
                            self.desync = true;
                            self.pos = real;
                        } else {
                            self.pos = None;
                            let code = exited.and_then(|m| m["body"]["exitCode"].as_i64()).unwrap_or(-1);
                            if code != self.tr.exit_code as i64 {
                                self.violate("exit_code", format!("exited event carries {code}, native exit status {}", self.tr.exit_code));
                            }
                        }
                    }
                }
                if !self.desync {
                    // logpoints: one console output per passage, in order
                    let got: Vec<&String> = logs.iter().filter(|l| l.starts_with("LP")).collect();
                    if got.len() != want_logs.len() || got.iter().zip(want_logs.iter()).any(|(a, b)| !a.starts_with(b.as_str())) {
                        self.violate("logpoint_output", format!("logpoints passed: expected outputs {want_logs:?}, got {got:?}"));
                    } else if !want_logs.is_empty() {
                        bump(&mut self.stats, "c13.logpoint_outputs_checked");
                    }
                }
            }
            _ => {}
        }
    }

    /// the program stopped at `k`, earlier than the model allows: which option was not honoured?
    fn classify_early(&self, k: usize) -> String {
        let rip = self.tr.pos[k].rip;
        for set in &self.sets {
            for b in set {
                if b.addrs.contains(&rip) {
                    let first = b.addrs.first() == Some(&rip);
                    let when = if b.prestart { "_set_before_start" } else { "" };
                    let which = if first { "" } else { "_at_other_instantiation" };
                    return match b.opt {
                        Opt::Cond(_) => format!("condition_not_honoured{when}{which}"),
                        Opt::Hit(_) => format!("hit_condition_not_honoured{when}{which}"),
                        Opt::Log(_) => format!("logpoint_stopped{when}{which}"),
                        Opt::None => "stop_position".to_string(),
                    };
                }
            }
        }
        "stop_at_location_of_no_latest_set".to_string()
    }

    fn classify_missed(&self, j: usize) -> String {
        let rip = self.tr.pos[j].rip;
        for set in &self.sets {
            for b in set {
                if b.addrs.contains(&rip) {
                    let first = b.addrs.first() == Some(&rip);
                    let when = if b.prestart { "_set_before_start" } else { "" };
                    let which = if first { "" } else { "_at_other_instantiation" };
                    return format!("missed_stop{when}{which}");
                }
            }
        }
        "missed_stop".into()
    }

    fn gen_opt(&self, t: &mut Tape, id: usize) -> Opt {
        match t.choose(8) {
            0 => Opt::Cond(["true", "false", "0", "1"][t.choose(4)].to_string()),
            1 | 2 => Opt::Hit(1 + t.choose(3) as u64),
            3 => Opt::Log(format!("LP{id}")),
            _ => Opt::None,
        }
    }

    fn opt_json(o: &Opt, mut v: Value) -> Value {
        match o {
            Opt::None => {}
            Opt::Cond(c) => v["condition"] = json!(c),
            Opt::Hit(n) => v["hitCondition"] = json!(n.to_string()),
            Opt::Log(m) => v["logMessage"] = json!(m),
        }
        v
    }

    fn gen_set(&mut self, t: &mut Tape) -> Value {
        let kind = if self.started && !self.exited { [0usize, 0, 0, 1, 1, 2][t.choose(6)] } else { [0usize, 0, 1][t.choose(3)] };
        let others: BTreeSet<u64> = self.sets.iter().enumerate().filter(|(k, _)| *k != kind).flat_map(|(_, s)| s.iter()).flat_map(|b| b.addrs.iter().copied()).collect();
        let n = t.choose(4);
        let mut specs: Vec<BpSpec> = vec![];
        let mut used: BTreeSet<u64> = others.clone();
        let prestart = !self.started || self.exited;
        let future_from = self.pos.map(|p| p + 1).unwrap_or(0);
        for k in 0..n {
            let id = self.sent * 10 + k;
            let opt = self.gen_opt(t, id);
            let (what, addrs) = match kind {
                0 => {
                    // lines of the reference execution's future are the interesting ones
                    let l = if t.chance(1, 10) { [1u64, 2, 3][t.choose(3)] } else { self.lines[t.choose(self.lines.len())] };
                    (What::Line(l), self.line_addrs.get(&l).cloned().unwrap_or_default())
                }
                1 => {
                    let f = self.functions[t.choose(self.functions.len())].clone();
                    let a = self.fn_addrs.get(&f).cloned().unwrap_or_default();
                    (What::Func(f), a)
                }
                _ => {
                    let span = (self.tr.pos.len() - future_from.min(self.tr.pos.len() - 1)).min(600).max(1);
                    let j = (future_from + t.choose(span)).min(self.tr.pos.len() - 1);
                    let a = self.tr.pos[j].rip;
                    (What::Instr(a), vec![a])
                }
            };
            if addrs.iter().any(|a| used.contains(a)) {
                continue; // keep every address owned by one breakpoint: the model stays exact
            }
            if matches!(what, What::Instr(a) if !self.lt.has_rows(a - self.base)) {
                continue;
            }
            for a in &addrs {
                used.insert(*a);
            }
            specs.push(BpSpec { what, opt, addrs, hits: 0, prestart });
        }
        let (cmd, args) = match kind {
            0 => {
                let bps: Vec<Value> = specs.iter().map(|b| Self::opt_json(&b.opt, json!({"line": if let What::Line(l) = b.what { l } else { 0 }}))).collect();
                ("setBreakpoints", json!({"source": {"path": self.source, "name": "p.rs"}, "breakpoints": bps}))
            }
            1 => {
                let bps: Vec<Value> = specs.iter().map(|b| Self::opt_json(&b.opt, json!({"name": if let What::Func(f) = &b.what { f.clone() } else { String::new() }}))).collect();
                ("setFunctionBreakpoints", json!({"breakpoints": bps}))
            }
            _ => {
                let bps: Vec<Value> = specs.iter().map(|b| Self::opt_json(&b.opt, json!({"instructionReference": format!("0x{:x}", if let What::Instr(a) = b.what { a } else { 0 })}))).collect();
                ("setInstructionBreakpoints", json!({"breakpoints": bps}))
            }
        };
        if specs.iter().any(|b| b.addrs.len() > 1) {
            bump(&mut self.stats, "c13.multi_location_breakpoints");
        }
        if specs.iter().any(|b| b.opt != Opt::None) {
            bump(&mut self.stats, "c13.breakpoints_with_options");
        }
        if prestart {
            bump(&mut self.stats, "c13.sets_before_start");
        } else {
            bump(&mut self.stats, "c13.sets_after_start");
        }
        self.sets[kind] = specs;
        self.last = Last::Set(kind);
        self.req(cmd, args)
    }
}

impl Driver for BpDriver {
    fn has_next(&self) -> bool {
        !self.done
    }

    fn next(&mut self, t: &mut Tape, records: &[Rec]) -> Option<Value> {
        if self.done {
            return None;
        }
        self.digest(records);
        self.sent += 1;
        let finish = self.sent >= self.max || (self.phase == 4 && (self.desync || (self.exited && self.restarts >= 1)));
        if finish && self.phase >= 1 {
            self.done = true;
            self.last = Last::Other;
            return Some(self.req("disconnect", json!({"terminateDebuggee": true})));
        }
        match self.phase {
            0 => {
                self.phase = 1;
                self.last = Last::Other;
                Some(self.req("initialize", json!({"adapterID": "bssim", "linesStartAt1": true})))
            }
            1 => {
                self.phase = 2;
                self.pre_left = t.choose(4);
                self.last = Last::Other;
                let p = self.program.clone();
                Some(self.req("launch", json!({"program": p})))
            }
            2 if self.pre_left > 0 => {
                self.pre_left -= 1;
                Some(self.gen_set(t))
            }
            2 => {
                self.phase = 4;
                self.pending_expect = Some(self.walk(0));
                self.last = Last::Run { from: 0, what: "configurationDone" };
                Some(self.req("configurationDone", json!({})))
            }
            _ => {
                if self.exited {
                    // a second life: the sets must still hold
                    if self.sets.iter().flat_map(|s| s.iter()).any(|b| matches!(b.opt, Opt::Hit(_))) || self.restarts >= 1 {
                        self.done = true;
                        self.last = Last::Other;
                        return Some(self.req("disconnect", json!({"terminateDebuggee": true})));
                    }
                    self.restarts += 1;
                    self.exited = false;
                    for set in self.sets.iter_mut() {
                        for b in set.iter_mut() {
                            b.hits = 0;
                        }
                    }
                    bump(&mut self.stats, "c13.restarts");
                    self.pending_expect = Some(self.walk(0));
                    self.last = Last::Run { from: 0, what: "restart" };
                    return Some(self.req("restart", json!({})));
                }
                if t.chance(2, 5) {
                    return Some(self.gen_set(t));
                }
                if t.chance(1, 12) && self.restarts == 0 && !self.sets.iter().flat_map(|s| s.iter()).any(|b| matches!(b.opt, Opt::Hit(_))) {
                    self.restarts += 1;
                    bump(&mut self.stats, "c13.restarts");
                    self.pending_expect = Some(self.walk(0));
                    self.last = Last::Run { from: 0, what: "restart" };
                    return Some(self.req("restart", json!({})));
                }
                let from = self.pos.map(|p| p + 1).unwrap_or(0);
                self.pending_expect = Some(if self.pos.is_some() { self.walk(from) } else { Expect::Unknown });
                self.last = Last::Run { from, what: "continue" };
                Some(self.req("continue", json!({"threadId": 1})))
            }
        }
    }

    fn finish(&mut self, records: &[Rec]) -> (Vec<Violation>, BTreeMap<String, u64>) {
        self.digest(records);
        (std::mem::take(&mut self.violations), std::mem::take(&mut self.stats))
    }
}

/// `bssim denote <bin> <src_file> <fn>...`: ask the core (a never-started Debugger) which
/// addresses every statement line and every function name denotes; cached next to the binary.
pub fn denote(bin: &str, src_file: &str, functions: &[String]) -> Result<(), String> {
    let out = Path::new(bin).with_extension("denote.json");
    if out.exists() {
        return Ok(());
    }
    let lt = crate::linetab::load(Path::new(bin))?;
    let file_id = lt.file_id(src_file).ok_or("source file not in line table")?;
    let mut lines: Vec<u64> = lt.stmt_lines(file_id).into_iter().collect();
    lines.extend([1u64, 2, 3]);
    bugstalker::debugger::rust::Environment::init(None);
    let (_r, w) = os_pipe::pipe().map_err(|e| e.to_string())?;
    let runner = Child::new(bin.to_string(), Vec::<String>::new(), None::<&Path>, w.try_clone().map_err(|e| e.to_string())?, w);
    let process = runner.install().map_err(|e| format!("twin install: {e}"))?;
    let mut twin = DebuggerBuilder::<NopHook>::new().build(process).map_err(|e| format!("twin build: {e}"))?;
    let glob = |a: Address| match a {
        Address::Relocated(r) => r.as_u64(),
        Address::Global(g) => u64::from(g),
    };
    let mut jl = serde_json::Map::new();
    for l in lines {
        if let Ok(v) = twin.set_breakpoint_at_line(src_file, l) {
            jl.insert(l.to_string(), json!(v.iter().map(|b| glob(b.addr)).collect::<Vec<_>>()));
        }
        let _ = twin.remove_breakpoint_at_line(src_file, l);
    }
    let mut jf = serde_json::Map::new();
    for f in functions {
        if let Ok(v) = twin.set_breakpoint_at_fn(f) {
            jf.insert(f.clone(), json!(v.iter().map(|b| glob(b.addr)).collect::<Vec<_>>()));
        }
        let _ = twin.remove_breakpoint_at_fn(f);
    }
    let tmp = Path::new(bin).with_extension(format!("denote.tmp{}", std::process::id()));
    std::fs::write(&tmp, serde_json::to_string(&json!({"lines": jl, "functions": jf})).unwrap()).map_err(|e| e.to_string())?;
    std::fs::rename(&tmp, &out).map_err(|e| e.to_string())?;
    Ok(())
}

//! Worker isolation: every run executes in a fresh PID + mount namespace.
//! pid 1 = reaper ("init"), pid 2 = the worker, pid 3.. = debuggee tasks in creation order.

use crate::seam::raw;

fn die(msg: &str) -> ! {
    eprintln!("bssim ns: {msg}: {}", std::io::Error::last_os_error());
    std::process::exit(2)
}

/// Run `f` as pid 2 of a new PID namespace; returns the exit code of the worker
/// (128+sig if it was killed).  Called from a single-threaded process.
pub fn run_in_namespace(f: impl FnOnce() -> i32) -> i32 {
    unsafe {
        if libc::unshare(libc::CLONE_NEWPID | libc::CLONE_NEWNS) != 0 {
            die("unshare");
        }
        let init = libc::fork();
        if init < 0 {
            die("fork init");
        }
        if init == 0 {
            // pid 1 of the new namespace
            libc::prctl(libc::PR_SET_PDEATHSIG, libc::SIGKILL);
            if libc::mount(c"none".as_ptr(), c"/".as_ptr(), std::ptr::null(), libc::MS_REC | libc::MS_PRIVATE, std::ptr::null()) != 0 {
                die("mount private");
            }
            if libc::mount(c"proc".as_ptr(), c"/proc".as_ptr(), c"proc".as_ptr(), 0, std::ptr::null()) != 0 {
                die("mount proc");
            }
            let w = libc::fork();
            if w < 0 {
                die("fork worker");
            }
            if w == 0 {
                let code = f();
                libc::_exit(code);
            }
            // reap everything; finish when the worker is gone
            loop {
                let mut st = 0i32;
                let r = raw::wait4(-1, &mut st, libc::__WALL);
                if r == w {
                    let code = if libc::WIFEXITED(st) { libc::WEXITSTATUS(st) } else { 128 + libc::WTERMSIG(st) };
                    libc::_exit(code);
                }
                if r < 0 && raw::errno() == libc::ECHILD {
                    libc::_exit(2);
                }
            }
        }
        let mut st = 0i32;
        loop {
            let r = raw::wait4(init, &mut st, 0);
            if r == init {
                break;
            }
            if r < 0 && raw::errno() != libc::EINTR {
                die("wait init");
            }
        }
        if libc::WIFEXITED(st) { libc::WEXITSTATUS(st) } else { 128 + libc::WTERMSIG(st) }
    }
}

// ---------------------------------------------------------------- /proc probes (harness side)

pub fn task_state(pid: i32, tid: i32) -> char {
    match std::fs::read_to_string(format!("/proc/{pid}/task/{tid}/stat")) {
        Ok(s) => match s.rfind(')') {
            Some(r) => s[r + 2..].chars().next().unwrap_or('X'),
            None => 'X',
        },
        Err(_) => 'X',
    }
}

pub fn tasks(pid: i32) -> Vec<i32> {
    let mut v: Vec<i32> = match std::fs::read_dir(format!("/proc/{pid}/task")) {
        Ok(rd) => rd.flatten().filter_map(|e| e.file_name().to_string_lossy().parse().ok()).collect(),
        Err(_) => vec![],
    };
    v.sort();
    v
}

/// All pids visible in this namespace's /proc with their state.
pub fn all_processes() -> Vec<(i32, char, String)> {
    let mut v = vec![];
    if let Ok(rd) = std::fs::read_dir("/proc") {
        for e in rd.flatten() {
            if let Ok(pid) = e.file_name().to_string_lossy().parse::<i32>() {
                if let Ok(s) = std::fs::read_to_string(format!("/proc/{pid}/stat")) {
                    if let (Some(l), Some(r)) = (s.find('('), s.rfind(')')) {
                        v.push((pid, s[r + 2..].chars().next().unwrap_or('X'), s[l + 1..r].to_string()));
                    }
                }
            }
        }
    }
    v.sort();
    v
}

pub fn read_mem(pid: i32, addr: u64, len: usize) -> Option<Vec<u8>> {
    use std::os::unix::fs::FileExt;
    let f = std::fs::File::open(format!("/proc/{pid}/mem")).ok()?;
    let mut buf = vec![0u8; len];
    let mut off = 0;
    while off < len {
        match f.read_at(&mut buf[off..], addr + off as u64) {
            Ok(0) => return None,
            Ok(n) => off += n,
            Err(_) => return None,
        }
    }
    Some(buf)
}

pub fn read_u64(pid: i32, addr: u64) -> Option<u64> {
    read_mem(pid, addr, 8).map(|b| u64::from_le_bytes(b.try_into().unwrap()))
}

#[derive(Clone, Debug)]
pub struct MapEntry {
    pub start: u64,
    pub end: u64,
    pub perms: String,
    pub offset: u64,
    pub path: String,
}

pub fn maps(pid: i32) -> Vec<MapEntry> {
    let mut v = vec![];
    if let Ok(s) = std::fs::read_to_string(format!("/proc/{pid}/maps")) {
        for l in s.lines() {
            let mut it = l.split_whitespace();
            let (Some(range), Some(perms), Some(off)) = (it.next(), it.next(), it.next()) else { continue };
            let _dev = it.next();
            let _ino = it.next();
            let path = it.next().unwrap_or("").to_string();
            let Some((a, b)) = range.split_once('-') else { continue };
            v.push(MapEntry {
                start: u64::from_str_radix(a, 16).unwrap_or(0),
                end: u64::from_str_radix(b, 16).unwrap_or(0),
                perms: perms.to_string(),
                offset: u64::from_str_radix(off, 16).unwrap_or(0),
                path,
            });
        }
    }
    v
}

pub fn sig_pending(pid: i32, tid: i32, sig: i32) -> bool {
    let Ok(s) = std::fs::read_to_string(format!("/proc/{pid}/task/{tid}/status")) else { return true };
    for l in s.lines() {
        if let Some(v) = l.strip_prefix("SigPnd:").or_else(|| l.strip_prefix("ShdPnd:")) {
            let m = u64::from_str_radix(v.trim(), 16).unwrap_or(0);
            if m & (1u64 << (sig - 1)) != 0 {
                return true;
            }
        }
    }
    false
}

//! Layer A: a single-tracee session of the real debugger checked, operation by operation,
//! as a refinement of `RefExec` (the independently recorded execution), plus cross
//! invariants after every step (text ledger, backtrace vs shadow stack, hook events).

use crate::linetab::LineTable;
use crate::ns;
use crate::reftrace::{self, RefTrace};
use crate::rng::Tape;
use crate::seam::{self, SysRec, raw};
use crate::worker::{Violation, WorkerResult, WorkerSpec, add, bump};
use bugstalker::debugger::address::{Address, RelocatedAddress};
use bugstalker::debugger::process::Child;
use bugstalker::debugger::register::debug::BreakCondition;
use bugstalker::debugger::variable::value::Value;
use bugstalker::debugger::{Debugger, DebuggerBuilder, Error, EventHook, FunctionInfo, PlaceDescriptor, StopReason};
use nix::sys::signal::Signal;
use nix::unistd::Pid;
use std::cell::RefCell;
use std::collections::{BTreeMap, BTreeSet};
use std::io::Read;
use std::path::Path;
use std::rc::Rc;

#[derive(Clone, Debug, PartialEq)]
pub enum Ev {
    Breakpoint { pc: u64, num: u32, line: Option<(String, u64)>, thread: Option<u32> },
    Step { pc: u64, line: Option<(String, u64)> },
    Signal(i32),
    Exit(i32),
    Watchpoint { pc: u64, num: u32, end_of_scope: bool },
    Install(i32),
}

#[derive(Clone, Default)]
pub struct Events(pub Rc<RefCell<Vec<Ev>>>);

fn place_line(p: &Option<PlaceDescriptor>) -> Option<(String, u64)> {
    p.as_ref().map(|p| (p.file.to_string_lossy().to_string(), p.line_number))
}

impl EventHook for Events {
    fn on_breakpoint(&self, pc: RelocatedAddress, num: u32, place: Option<PlaceDescriptor>, _f: Option<&FunctionInfo>, thread: Option<u32>) -> anyhow::Result<()> {
        self.0.borrow_mut().push(Ev::Breakpoint { pc: pc.as_u64(), num, line: place_line(&place), thread });
        Ok(())
    }
    fn on_watchpoint(&self, pc: RelocatedAddress, num: u32, _p: Option<PlaceDescriptor>, _c: BreakCondition, _d: Option<&str>, _o: Option<&Value>, _n: Option<&Value>, end_of_scope: bool) -> anyhow::Result<()> {
        self.0.borrow_mut().push(Ev::Watchpoint { pc: pc.as_u64(), num, end_of_scope });
        Ok(())
    }
    fn on_step(&self, pc: RelocatedAddress, place: Option<PlaceDescriptor>, _f: Option<&FunctionInfo>, _t: Option<u32>) -> anyhow::Result<()> {
        self.0.borrow_mut().push(Ev::Step { pc: pc.as_u64(), line: place_line(&place) });
        Ok(())
    }
    fn on_async_step(&self, _pc: RelocatedAddress, _p: Option<PlaceDescriptor>, _f: Option<&FunctionInfo>, _t: u64, _c: bool) -> anyhow::Result<()> {
        Ok(())
    }
    fn on_signal(&self, signal: Signal) {
        self.0.borrow_mut().push(Ev::Signal(signal as i32));
    }
    fn on_exit(&self, code: i32) {
        self.0.borrow_mut().push(Ev::Exit(code));
    }
    fn on_process_install(&self, pid: Pid, _o: Option<&object::File>) {
        self.0.borrow_mut().push(Ev::Install(pid.as_raw()));
    }
}

#[derive(Clone, Copy, Debug, PartialEq)]
pub enum Where {
    NotStarted,
    At(usize),
    /// outside traced code; `lb` = last index known to be executed
    Foreign { lb: usize, tick: u64 },
    Exited,
}

#[derive(Clone, Debug)]
pub enum Op {
    Start,
    BpAddr(u64),
    BpLine(u64),
    BpFn(String),
    RmAddr(u64),
    RmLine(u64),
    RmFn(String),
    RmNum(u32),
    Continue,
    Stepi,
    Step,
    Next,
    Finish,
    Restart,
}

#[derive(Debug)]
pub enum Outcome {
    Stop(StopKind),
    Done,
    Err(String),
}
#[derive(Debug, Clone, PartialEq)]
pub enum StopKind {
    Breakpoint(u64),
    Signal(i32),
    Exit(i32),
    Watchpoint(u64),
    Start,
    NoSuchProcess,
}

fn stop_kind(r: &StopReason) -> StopKind {
    match r {
        StopReason::DebugeeExit(c) => StopKind::Exit(*c),
        StopReason::DebugeeStart => StopKind::Start,
        StopReason::Breakpoint(_, a) => StopKind::Breakpoint(a.as_u64()),
        StopReason::Watchpoint(_, a, _) => StopKind::Watchpoint(a.as_u64()),
        StopReason::SignalStop(_, s) => StopKind::Signal(*s as i32),
        StopReason::NoSuchProcess(_) => StopKind::NoSuchProcess,
    }
}

pub struct Session<'a> {
    pub dbg: Option<Debugger>,
    pub pid: i32,
    pub tr: &'a RefTrace,
    pub lt: &'a LineTable,
    pub file_id: u32,
    pub src_file: String,
    pub bin: String,
    pub events: Events,
    pub pos: Where,
    /// model: armed user breakpoints, absolute address -> number reported by the debugger
    pub armed: BTreeMap<u64, u32>,
    /// addresses each line / function request denoted (learned from the debugger's answers)
    pub line_addrs: BTreeMap<u64, BTreeSet<u64>>,
    pub fn_addrs: BTreeMap<String, BTreeSet<u64>>,
    pub log: Vec<String>,
    pub violations: Vec<Violation>,
    pub stats: BTreeMap<String, u64>,
    pub step_no: usize,
    pub reader: os_pipe::PipeReader,
    pub stdout: Vec<u8>,
    pub file_text: BTreeMap<String, Vec<u8>>,
    pub fn_syms: Vec<(u64, u64)>,
    pub allowed_internal: BTreeSet<u64>,
    pub exit_code: Option<i32>,
    pub restarts: u32,
}

fn err_str(e: &Error) -> String {
    format!("{e}")
}

impl<'a> Session<'a> {
    pub fn new(spec: &WorkerSpec, tr: &'a RefTrace, lt: &'a LineTable) -> Result<Self, String> {
        let (reader, writer) = os_pipe::pipe().map_err(|e| e.to_string())?;
        unsafe {
            let fl = libc::fcntl(std::os::fd::AsRawFd::as_raw_fd(&reader), libc::F_GETFL);
            libc::fcntl(std::os::fd::AsRawFd::as_raw_fd(&reader), libc::F_SETFL, fl | libc::O_NONBLOCK);
        }
        bugstalker::debugger::rust::Environment::init(None);
        let runner = Child::new(spec.bin.clone(), Vec::<String>::new(), None::<&Path>, writer.try_clone().map_err(|e| e.to_string())?, writer);
        let process = runner.install().map_err(|e| format!("install: {e}"))?;
        let pid = process.pid().as_raw();
        let events = Events::default();
        let dbg = DebuggerBuilder::<Events>::new().with_hooks(events.clone()).build(process).map_err(|e| format!("build: {e}"))?;
        drop(runner);
        let file_id = lt.file_id(&spec.src_file).ok_or("source file not in line table")?;
        let info = reftrace::elf_info(Path::new(&spec.bin))?;
        let fn_syms = info.symbols.iter().map(|(_, a, s)| (tr.base + a, *s)).collect();
        let mut allowed_internal = BTreeSet::new();
        allowed_internal.insert(tr.base + info.entry);
        Ok(Session {
            dbg: Some(dbg),
            pid,
            tr,
            lt,
            file_id,
            src_file: spec.src_file.clone(),
            bin: spec.bin.clone(),
            events,
            pos: Where::NotStarted,
            armed: BTreeMap::new(),
            line_addrs: BTreeMap::new(),
            fn_addrs: BTreeMap::new(),
            log: vec![],
            violations: vec![],
            stats: BTreeMap::new(),
            step_no: 0,
            reader,
            stdout: vec![],
            file_text: BTreeMap::new(),
            fn_syms,
            allowed_internal,
            exit_code: None,
            restarts: 0,
        })
    }

    pub fn logf(&mut self, s: String) {
        if let Ok(mut p) = crate::PARTIAL.lock() {
            p.0.push(s.clone());
        }
        self.log.push(s);
    }
    pub fn violate(&mut self, property: &str, invariant: &str, detail: String) {
        let v = Violation { property: property.into(), invariant: invariant.into(), detail, step: self.step_no };
        self.logf(format!("  !! {}:{} {}", v.property, v.invariant, v.detail));
        self.violations.push(v);
    }
    fn off(&self, a: u64) -> String {
        if self.tr.in_text(a) { format!("+{:x}", a - self.tr.base) } else { format!("{a:#x}") }
    }
    fn abs(&self, a: Address) -> u64 {
        match a {
            Address::Relocated(r) => r.as_u64(),
            Address::Global(g) => self.tr.base + u64::from(g),
        }
    }
    fn drain_output(&mut self) {
        let mut buf = [0u8; 4096];
        loop {
            match self.reader.read(&mut buf) {
                Ok(0) => break,
                Ok(n) => self.stdout.extend_from_slice(&buf[..n]),
                Err(_) => break,
            }
        }
    }

    /// Where is the tracee really?  Read by the harness, never from BugStalker.
    fn observe(&mut self, from: usize) -> (Where, Option<(u64, u64, u64)>) {
        let regs = match raw::getregs(self.pid) {
            Ok(r) => r,
            Err(_) => return (Where::Exited, None),
        };
        let tick = ns::read_u64(self.pid, self.tr.tick_addr).unwrap_or(u64::MAX);
        let t = (regs.rip, regs.rsp, tick);
        if !self.tr.in_text(regs.rip) {
            // last index definitely executed: all positions with a smaller tick
            let lb = self.tr.pos.partition_point(|p| p.tick < tick).saturating_sub(1).max(from.saturating_sub(1));
            return (Where::Foreign { lb, tick }, Some(t));
        }
        match self.tr.find(from, regs.rip, regs.rsp, tick) {
            Some(j) => (Where::At(j), Some(t)),
            None => (Where::Foreign { lb: from.saturating_sub(1), tick }, Some(t)),
        }
    }

    fn armed_set(&self) -> BTreeSet<u64> {
        self.armed.keys().copied().collect()
    }

    // ------------------------------------------------------------------ operations

    pub fn exec(&mut self, op: &Op) {
        self.step_no += 1;
        let before = self.pos;
        let ev0 = self.events.0.borrow().len();
        let h0 = seam::history_len();
        let desc = match op {
            Op::BpAddr(a) => format!("BpAddr({})", self.off(*a)),
            Op::RmAddr(a) => format!("RmAddr({})", self.off(*a)),
            _ => format!("{op:?}"),
        };
        let name = format!("{op:?}");
        let opname = name.split('(').next().unwrap().to_string();
        bump(&mut self.stats, &format!("op.{opname}"));
        let mut dbg = self.dbg.take().unwrap();
        let outcome = self.run_op(&mut dbg, op);
        self.dbg = Some(dbg);
        let evs: Vec<Ev> = self.events.0.borrow()[ev0..].to_vec();
        let hist = seam::history_since(h0);
        add(&mut self.stats, "seam_calls", hist.len() as u64);
        // where are we now?
        let is_exec = matches!(op, Op::Start | Op::Continue | Op::Stepi | Op::Step | Op::Next | Op::Finish | Op::Restart);
        let mut obs = None;
        let dead_state = matches!(before, Where::Exited | Where::NotStarted) && !matches!(op, Op::Restart | Op::Start);
        if is_exec && !dead_state {
            let exited = matches!(outcome, Outcome::Stop(StopKind::Exit(_))) || self.dbg_exited();
            if exited {
                self.pos = Where::Exited;
            } else {
                let from = match (before, op) {
                    (_, Op::Restart) | (Where::NotStarted, _) => 0,
                    (Where::At(i), Op::Start) => i,
                    (Where::At(i), _) => i + 1,
                    (Where::Foreign { lb, .. }, _) => lb + 1,
                    (Where::Exited, _) => 0,
                };
                // a failed op must not have moved the program
                let from = if matches!(outcome, Outcome::Err(_)) { from.saturating_sub(1) } else { from };
                let (w, t) = self.observe(from);
                self.pos = w;
                obs = t;
            }
        }
        let wh = match self.pos {
            Where::At(j) => format!("At({j} {} d{} t{})", self.off(self.tr.pos[j].rip), self.tr.depth(j), self.tr.pos[j].tick),
            Where::Foreign { lb, tick } => format!("Foreign(lb {lb} t{tick})"),
            w => format!("{w:?}"),
        };
        let oc = match &outcome {
            Outcome::Stop(StopKind::Breakpoint(a)) => format!("Breakpoint({})", self.off(*a)),
            Outcome::Stop(StopKind::Watchpoint(a)) => format!("Watchpoint({})", self.off(*a)),
            o => format!("{o:?}"),
        };
        self.logf(format!("{:3} {desc} -> {oc} @ {wh} ev={}", self.step_no, evs.len()));
        self.check(op, before, &outcome, &evs, &hist, obs);
        self.drain_output();
    }

    fn dbg_exited(&self) -> bool {
        // harness-side: the main task is gone or a zombie
        matches!(ns::task_state(self.pid, self.pid), 'Z' | 'X')
    }

    fn learn_set(&mut self, views: Vec<(u64, u32)>) -> BTreeSet<u64> {
        let mut s = BTreeSet::new();
        for (a, n) in views {
            self.armed.insert(a, n);
            s.insert(a);
        }
        s
    }

    fn run_op(&mut self, dbg: &mut Debugger, op: &Op) -> Outcome {
        let wrap = |r: Result<StopReason, Error>| match r {
            Ok(s) => Outcome::Stop(stop_kind(&s)),
            Err(e) => Outcome::Err(err_str(&e)),
        };
        let unit = |r: Result<(), Error>| match r {
            Ok(()) => Outcome::Done,
            Err(e) => Outcome::Err(err_str(&e)),
        };
        match op {
            Op::Start => wrap(dbg.start_debugee_with_reason()),
            Op::Continue => wrap(dbg.continue_debugee_with_reason()),
            Op::Stepi => unit(dbg.stepi()),
            Op::Step => unit(dbg.step_into()),
            Op::Next => unit(dbg.step_over()),
            Op::Finish => unit(dbg.step_out()),
            Op::Restart => match dbg.restart_debugee() {
                Ok(p) => {
                    self.pid = p.as_raw();
                    self.restarts += 1;
                    Outcome::Done
                }
                Err(e) => Outcome::Err(err_str(&e)),
            },
            Op::BpAddr(a) => match dbg.set_breakpoint_at_addr(RelocatedAddress::from(*a)) {
                Ok(v) => {
                    let x = (self.abs(v.addr), v.number);
                    self.learn_set(vec![x]);
                    Outcome::Done
                }
                Err(e) => Outcome::Err(err_str(&e)),
            },
            Op::BpLine(l) => {
                let f = self.src_file.clone();
                match dbg.set_breakpoint_at_line(&f, *l) {
                    Ok(v) => {
                        let views = v.iter().map(|b| (self.abs(b.addr), b.number)).collect();
                        let s = self.learn_set(views);
                        self.line_addrs.insert(*l, s);
                        Outcome::Done
                    }
                    Err(e) => Outcome::Err(err_str(&e)),
                }
            }
            Op::BpFn(n) => match dbg.set_breakpoint_at_fn(n) {
                Ok(v) => {
                    let views = v.iter().map(|b| (self.abs(b.addr), b.number)).collect();
                    let s = self.learn_set(views);
                    self.fn_addrs.insert(n.clone(), s);
                    Outcome::Done
                }
                Err(e) => Outcome::Err(err_str(&e)),
            },
            Op::RmAddr(a) => {
                let started = !matches!(self.pos, Where::NotStarted);
                let addr = if started { Address::Relocated(RelocatedAddress::from(*a)) } else { Address::Relocated(RelocatedAddress::from(*a)) };
                let r = dbg.remove_breakpoint(addr);
                // before start a breakpoint may be stored under its global address
                let r = match r {
                    Ok(None) if !started => dbg.remove_breakpoint(Address::Global(((*a - self.tr.base) as usize).into())),
                    r => r,
                };
                match r {
                    Ok(v) => {
                        let removed: Vec<u64> = v.iter().map(|b| self.abs(b.addr)).collect();
                        self.model_remove("RmAddr", removed, Some([*a].into_iter().filter(|a| self.armed.contains_key(a)).collect()));
                        Outcome::Done
                    }
                    Err(e) => Outcome::Err(err_str(&e)),
                }
            }
            Op::RmNum(n) => match dbg.remove_breakpoint_by_number(*n) {
                Ok(v) => {
                    let removed: Vec<u64> = v.iter().map(|b| self.abs(b.addr)).collect();
                    let exp: BTreeSet<u64> = self.armed.iter().filter(|(_, num)| *num == n).map(|(a, _)| *a).collect();
                    self.model_remove("RmNum", removed, Some(exp));
                    Outcome::Done
                }
                Err(e) => Outcome::Err(err_str(&e)),
            },
            Op::RmLine(l) => {
                let f = self.src_file.clone();
                match dbg.remove_breakpoint_at_line(&f, *l) {
                    Ok(v) => {
                        let removed: Vec<u64> = v.iter().map(|b| self.abs(b.addr)).collect();
                        let exp = self.line_addrs.get(l).map(|s| s.iter().copied().filter(|a| self.armed.contains_key(a)).collect());
                        self.model_remove("RmLine", removed, exp);
                        Outcome::Done
                    }
                    Err(e) => Outcome::Err(err_str(&e)),
                }
            }
            Op::RmFn(n) => match dbg.remove_breakpoint_at_fn(n) {
                Ok(v) => {
                    let removed: Vec<u64> = v.iter().map(|b| self.abs(b.addr)).collect();
                    let exp = self.fn_addrs.get(n).map(|s| s.iter().copied().filter(|a| self.armed.contains_key(a)).collect());
                    self.model_remove("RmFn", removed, exp);
                    Outcome::Done
                }
                Err(e) => Outcome::Err(err_str(&e)),
            },
        }
    }

    fn model_remove(&mut self, what: &str, removed: Vec<u64>, expected: Option<BTreeSet<u64>>) {
        let removed_set: BTreeSet<u64> = removed.iter().copied().collect();
        for a in &removed {
            if self.armed.remove(a).is_none() {
                let d = format!("{what}: debugger reports removal of {} which was not armed", self.off(*a));
                self.violate("C01", "remove_unknown", d);
            }
        }
        if let Some(exp) = expected {
            if !exp.is_subset(&removed_set) {
                let missing: Vec<String> = exp.difference(&removed_set).map(|a| self.off(*a)).collect();
                self.violate("C01", "remove_incomplete", format!("{what}: armed breakpoints not removed: {missing:?}"));
                // keep the model in line with the debugger's own claim: they remain armed
            }
        }
    }

    // ------------------------------------------------------------------ oracles

    fn check(&mut self, op: &Op, before: Where, outcome: &Outcome, evs: &[Ev], hist: &[SysRec], obs: Option<(u64, u64, u64)>) {
        match op {
            Op::Start | Op::Continue => self.check_continue(op, before, outcome, evs, obs),
            Op::Stepi | Op::Step | Op::Next | Op::Finish => self.check_step(op, before, outcome, evs, obs),
            Op::Restart => self.check_restart(outcome),
            _ => {}
        }
        if !matches!(self.pos, Where::NotStarted | Where::Exited) {
            self.check_ledger();
            self.check_pokes(hist);
        }
        if let Where::At(j) = self.pos {
            self.check_backtrace(j);
        }
    }

    /// C01: continue/start stop at exactly the next armed position of the reference execution.
    fn check_continue(&mut self, op: &Op, before: Where, outcome: &Outcome, evs: &[Ev], obs: Option<(u64, u64, u64)>) {
        let b = self.armed_set();
        let after = match (before, op) {
            (Where::NotStarted, Op::Start) => None,
            (Where::NotStarted, _) | (Where::Exited, _) | (_, Op::Start) => {
                // must be refused
                if !matches!(outcome, Outcome::Err(_)) {
                    self.violate("C11", "wrong_state_accepted", format!("{op:?} in state {before:?} returned {outcome:?}"));
                }
                bump(&mut self.stats, "refused_in_wrong_state");
                return;
            }
            (Where::At(i), _) => Some(i),
            (Where::Foreign { lb, .. }, _) => Some(lb),
        };
        let expected = self.tr.next_in(after, &b);
        if let (Where::Foreign { tick, .. }, Some(j)) = (before, expected) {
            // positions sharing the TICK value read in foreign code may or may not have been
            // executed already: the model cannot tell, so nothing is demanded
            if self.tr.pos[j].tick <= tick {
                bump(&mut self.stats, "c01.skipped_ambiguous_after_foreign");
                return;
            }
        }
        bump(&mut self.stats, "c01.continue_checked");
        match expected {
            Some(j) => {
                bump(&mut self.stats, "c01.expected_bp_stop");
                let p = self.tr.pos[j];
                match outcome {
                    Outcome::Stop(StopKind::Breakpoint(pc)) => {
                        if *pc != p.rip {
                            self.violate("C01", "stop_pc", format!("reported pc {} expected {} (ref index {j})", self.off(*pc), self.off(p.rip)));
                        }
                        if self.pos != Where::At(j) {
                            let d = format!("real position {:?} (rip,rsp,tick={:x?}) != expected ref index {j} ({},rsp {:x},tick {})", self.pos, obs, self.off(p.rip), p.rsp, p.tick);
                            self.violate("C01", "stop_position", d);
                        }
                        let ecx_pc = self.dbg.as_ref().unwrap().ecx().location().pc.as_u64();
                        if ecx_pc != p.rip {
                            self.violate("C01", "ecx_pc", format!("ecx pc {} expected {}", self.off(ecx_pc), self.off(p.rip)));
                        }
                        let bps: Vec<&Ev> = evs.iter().filter(|e| matches!(e, Ev::Breakpoint { .. })).collect();
                        if bps.len() != 1 {
                            self.violate("C01", "hook_count", format!("{} on_breakpoint calls for one stop", bps.len()));
                        } else if let Ev::Breakpoint { pc, num, .. } = bps[0] {
                            if *pc != p.rip {
                                self.violate("C01", "hook_pc", format!("on_breakpoint pc {} expected {}", self.off(*pc), self.off(p.rip)));
                            }
                            if self.armed.get(&p.rip) != Some(num) {
                                self.violate("C01", "hook_number", format!("on_breakpoint number {num} expected {:?}", self.armed.get(&p.rip)));
                            }
                        }
                        if j > 0 && after.map(|a| self.tr.pos[a + 1..j].iter().any(|q| q.rip == p.rip)).unwrap_or(false) {
                            // cannot happen by construction of `expected`
                        }
                        if after.is_some() && self.tr.pos[..j].iter().any(|q| q.rip == p.rip) {
                            bump(&mut self.stats, "c01.rearrival_hit");
                        }
                    }
                    other => {
                        let d = format!("expected Breakpoint at ref index {j} ({}), got {other:?}; real position {:?}", self.off(p.rip), self.pos);
                        self.violate("C01", "missed_stop", d);
                    }
                }
            }
            None => {
                bump(&mut self.stats, "c01.expected_exit");
                match outcome {
                    Outcome::Stop(StopKind::Exit(code)) => {
                        self.exit_code = Some(*code);
                        if *code != self.tr.exit_code {
                            self.violate("C11", "exit_code", format!("reported exit code {code}, reference {}", self.tr.exit_code));
                        }
                        let n = evs.iter().filter(|e| matches!(e, Ev::Exit(_))).count();
                        if n != 1 {
                            self.violate("C01", "exit_hook_count", format!("{n} on_exit calls"));
                        }
                    }
                    other => {
                        let d = format!("no armed position remains, expected exit({}), got {other:?} at {:?}", self.tr.exit_code, self.pos);
                        self.violate("C01", "spurious_stop", d);
                    }
                }
            }
        }
    }

    fn lines_at(&self, rip: u64) -> BTreeSet<(u32, u64)> {
        self.lt.lines_for(rip - self.tr.base)
    }
    fn is_stmt(&self, rip: u64) -> bool {
        self.lt.is_stmt_addr(rip - self.tr.base)
    }
    /// every is_stmt row at this exact address has a line outside `l`
    fn stmt_of_other_line(&self, rip: u64, l: &BTreeSet<(u32, u64)>) -> bool {
        let rows = self.lt.rows_at(rip - self.tr.base);
        let st: Vec<_> = rows.iter().filter(|r| r.is_stmt).collect();
        // rows of inlined callees and line-0 rows are not statement boundaries of the
        // activation's own body
        !st.is_empty() && st.iter().all(|r| r.line != 0 && !l.contains(&(r.file, r.line))) && !self.lt.in_inlined(rip - self.tr.base)
    }

    /// Does `missed` lie after the first epilogue_begin row of the function containing `from`?
    /// (BugStalker's step-over drops every statement row beyond that row, step.rs:322-330.)
    fn after_first_epilogue(&self, from: u64, missed: u64) -> bool {
        let Some((lo, sz)) = self.fn_syms.iter().find(|(a, s)| from >= *a && from < *a + *s).copied() else { return false };
        let (lo_g, hi_g) = (lo - self.tr.base, lo + sz - self.tr.base);
        let eb = self.lt.seqs.iter().flat_map(|s| s.rows.iter()).filter(|r| r.epilogue_begin && r.addr >= lo_g && r.addr < hi_g).map(|r| r.addr).min();
        match eb {
            Some(eb) => missed - self.tr.base > eb && missed >= lo && missed < lo + sz,
            None => false,
        }
    }

    /// C03: step commands land where their definition says.
    fn check_step(&mut self, op: &Op, before: Where, outcome: &Outcome, evs: &[Ev], _obs: Option<(u64, u64, u64)>) {
        let i = match before {
            Where::At(i) => i,
            Where::NotStarted | Where::Exited => {
                if !matches!(outcome, Outcome::Err(_)) {
                    self.violate("C11", "wrong_state_accepted", format!("{op:?} in state {before:?} returned {outcome:?}"));
                }
                bump(&mut self.stats, "refused_in_wrong_state");
                return;
            }
            Where::Foreign { .. } => {
                bump(&mut self.stats, "c03.skipped_from_foreign");
                return;
            }
        };
        let tr = self.tr;
        let b = self.armed_set();
        let n = tr.pos.len();
        let act_i = tr.pos[i].act;
        let ret_i = tr.acts[act_i as usize].ret_idx.unwrap_or(n);
        let kind = format!("{op:?}").to_lowercase();
        // step/next/finish are judged when issued from an activation of a function of the
        // generated source file (rows of macro-generated library functions are attributed to
        // other files than their DW_AT_decl_file; that attribution is C04's subject)
        let user_fn = self.lt.rows_for(tr.acts[act_i as usize].entry_rip - tr.base).iter().any(|r| r.file == self.file_id);
        if !user_fn && !matches!(op, Op::Stepi) {
            bump(&mut self.stats, "c03.skipped_from_library_function");
            return;
        }
        bump(&mut self.stats, &format!("c03.{kind}_checked"));
        // the command ended with the process gone
        if self.pos == Where::Exited {
            // legitimate only if no admissible stop existed before the exit
            let says_exit = matches!(outcome, Outcome::Err(e) if e.contains("exit")) || evs.iter().any(|e| matches!(e, Ev::Exit(_)));
            if !says_exit {
                self.violate("C03", "exit_not_reported", format!("{kind}: process exited but the command reported {outcome:?}"));
            }
            // must not have run through an armed breakpoint on the way out
            if tr.next_in(Some(i), &b).is_some() {
                bump(&mut self.stats, "c03.observed_ran_through_user_breakpoint");
            }
            bump(&mut self.stats, "c03.ended_in_exit");
            return;
        }
        let j = match self.pos {
            Where::At(j) => j,
            Where::Foreign { .. } => {
                // legitimate landings in foreign code: stepi over a call/ret into foreign code,
                // finish/next/step out of the outermost traced activation
                let ok = match op {
                    Op::Stepi => tr.foreign_after(i),
                    _ => true,
                };
                if !ok {
                    self.violate("C03", "lost_position", format!("{kind} from ref index {i}: landed outside traced code unexpectedly"));
                } else {
                    bump(&mut self.stats, "c03.landed_foreign");
                }
                return;
            }
            _ => return,
        };
        // cut short by a breakpoint: nothing armed may lie strictly between
        if let Some(k) = tr.next_in(Some(i), &b) {
            if k < j && !matches!(op, Op::Stepi) {
                // BugStalker deliberately absorbs every non-temporary breakpoint while the
                // temporary breakpoints of next/finish exist; C03 only demands that a step
                // which *is* cut short says so.  Recorded, not judged.
                bump(&mut self.stats, "c03.observed_ran_through_user_breakpoint");
            }
        }
        let at_bp = b.contains(&tr.pos[j].rip);
        let reported_bp = evs.iter().any(|e| matches!(e, Ev::Breakpoint { .. }));
        // reported place = place of the real pc
        for e in evs {
            if let Ev::Step { pc, line } = e {
                if *pc != tr.pos[j].rip {
                    self.violate("C03", "reported_pc", format!("{kind}: on_step pc {} but real pc {}", self.off(*pc), self.off(tr.pos[j].rip)));
                }
                if let Some((f, l)) = line {
                    let real: BTreeSet<(String, u64)> = self.lt.rows_for(tr.pos[j].rip - tr.base).iter().map(|r| (self.lt.files.get(r.file as usize).cloned().unwrap_or_default(), r.line)).collect();
                    if !real.is_empty() && !real.iter().any(|(rf, rl)| rl == l && (rf.ends_with(f.as_str()) || f.ends_with(rf.as_str()))) {
                        self.violate("C03", "reported_place", format!("{kind}: on_step place {f}:{l} but line table says {real:?} for {}", self.off(tr.pos[j].rip)));
                    }
                }
            }
        }
        let ecx_pc = self.dbg.as_ref().unwrap().ecx().location().pc.as_u64();
        if ecx_pc != tr.pos[j].rip {
            self.violate("C03", "ecx_pc", format!("{kind}: ecx pc {} but real pc {}", self.off(ecx_pc), self.off(tr.pos[j].rip)));
        }
        match op {
            Op::Stepi => {
                if j != i + 1 {
                    self.violate("C03", "stepi", format!("stepi from ref index {i} landed at {j}, expected {}", i + 1));
                }
            }
            Op::Finish => {
                if matches!(outcome, Outcome::Err(_)) {
                    bump(&mut self.stats, "c03.finish_err");
                    if j != i {
                        self.violate("C03", "failed_step_moved", format!("finish failed ({outcome:?}) but the program moved {i} -> {j}"));
                    }
                    return;
                }
                if ret_i >= n {
                    return;
                }
                if j != ret_i {
                    if at_bp && j < ret_i && reported_bp {
                        bump(&mut self.stats, "c03.cut_short_by_bp");
                    } else {
                        let d = format!("finish from ref index {i} (act {act_i}, depth {}) landed at {j} (act {}, depth {}), expected {ret_i} (act {})", tr.depth(i), tr.pos[j].act, tr.depth(j), tr.pos[ret_i].act);
                        // known mechanism: the temporary breakpoint at the return address is
                        // first reached by a deeper activation of the same function
                        let inv = if j < ret_i && tr.pos[j].rip == tr.acts[act_i as usize].ret && tr.pos[j].act != tr.pos[ret_i].act { "finish_recursion_wrong_activation" } else { "finish" };
                        self.violate("C03", inv, d);
                    }
                } else {
                    bump(&mut self.stats, "c03.finish_exact");
                }
            }
            Op::Step | Op::Next => {
                if matches!(outcome, Outcome::Err(_)) {
                    bump(&mut self.stats, "c03.step_err");
                    return;
                }
                let l = self.lines_at(tr.pos[i].rip);
                // (a) first statement boundary of another line inside the activation
                let mut jstar: Option<usize> = None;
                let mut landing: Option<usize> = None;
                for k in i + 1..ret_i.min(n) {
                    if tr.pos[k].act == act_i && self.stmt_of_other_line(tr.pos[k].rip, &l) {
                        jstar = Some(k);
                        break;
                    }
                }
                if jstar.is_none() && ret_i < n {
                    // (b) the function returns first
                    let e = ret_i;
                    landing = Some(e);
                    if self.is_stmt(tr.pos[e].rip) {
                        jstar = Some(e);
                    } else {
                        let act_e = tr.pos[e].act;
                        let ret_e = tr.acts[act_e as usize].ret_idx.unwrap_or(n);
                        let le = self.lines_at(tr.pos[e].rip);
                        let mut found = None;
                        for k in e + 1..ret_e.min(n) {
                            if tr.pos[k].act == act_e && self.stmt_of_other_line(tr.pos[k].rip, &le) {
                                found = Some(k);
                                break;
                            }
                        }
                        jstar = found.or(if ret_e < n { Some(ret_e) } else { None });
                    }
                }
                if j <= i {
                    self.violate("C03", "no_progress", format!("{kind} from ref index {i} did not move forward (landed {j})"));
                    return;
                }
                let cut = at_bp && reported_bp;
                if let Some(js) = jstar {
                    if j > js {
                        let d = format!("{kind} from ref index {i} ({} lines {:?}) landed at {j} ({} lines {:?}), later than the latest admissible stop {js} ({} lines {:?})", self.off(tr.pos[i].rip), l, self.off(tr.pos[j].rip), self.lines_at(tr.pos[j].rip), self.off(tr.pos[js].rip), self.lines_at(tr.pos[js].rip));
                        let inv = if matches!(op, Op::Next) && self.after_first_epilogue(tr.pos[i].rip, tr.pos[js].rip) { "next_skips_rows_after_first_epilogue" } else { "skipped_line" };
                        self.violate("C03", inv, d);
                        return;
                    }
                }
                if !cut && !self.is_stmt(tr.pos[j].rip) && Some(j) != landing {
                    // stops in code without line rows are outside the statement
                    if self.lt.has_rows(tr.pos[j].rip - tr.base) {
                        self.violate("C03", "not_stmt_boundary", format!("{kind} from {i} stopped at {j} ({}), not a statement boundary", self.off(tr.pos[j].rip)));
                    }
                }
                if matches!(op, Op::Next) && !cut && !tr.stack_at(i).contains(&tr.pos[j].act) {
                    let same_fn = tr.fn_of_act(tr.pos[j].act) == tr.fn_of_act(act_i);
                    // known mechanism: after the function returned into the middle of a
                    // statement of the caller, step_over_any finishes with step_in, which
                    // enters the next call of that statement
                    let sibling = ret_i < n && j > ret_i && tr.acts[tr.pos[j].act as usize].entry_idx > ret_i && tr.is_self_or_caller(tr.pos[ret_i].act, j);
                    let inv = if same_fn { "next_recursion_deeper_activation" } else if sibling { "next_after_return_enters_sibling_callee" } else { "next_in_callee" };
                    self.violate("C03", inv, format!("next from ref index {i} (act {act_i}) stopped inside a callee at {j} (act {}, {})", tr.pos[j].act, self.off(tr.pos[j].rip)));
                }
                if matches!(op, Op::Step) && !cut {
                    // first call made from act_i before j that enters code with line rows
                    let lim = jstar.unwrap_or(n - 1).min(j);
                    for k in i + 1..=lim {
                        let a = tr.pos[k].act;
                        let act = &tr.acts[a as usize];
                        if act.entry_idx == k && act.parent == Some(act_i) && self.lt.has_rows(act.entry_rip - tr.base) {
                            // callee bound: its first statement boundary at/after prologue_end
                            let end = act.ret_idx.unwrap_or(n).min(n);
                            let mut cstar = None;
                            let has_pe = (k..end).any(|m| tr.pos[m].act == a && self.lt.rows_at(tr.pos[m].rip - tr.base).iter().any(|r| r.prologue_end));
                            let mut seen_pe = !has_pe;
                            for m in k..end {
                                if tr.pos[m].act != a {
                                    continue;
                                }
                                let rows = self.lt.rows_at(tr.pos[m].rip - tr.base);
                                if rows.iter().any(|r| r.prologue_end) {
                                    seen_pe = true;
                                }
                                if seen_pe && rows.iter().any(|r| r.is_stmt) {
                                    cstar = Some(m);
                                    break;
                                }
                            }
                            if let Some(c) = cstar {
                                bump(&mut self.stats, "c03.step_into_callee_bound");
                                if j > c {
                                    // known mechanism: the callee's first row shares its address
                                    // with the end_sequence row of the preceding function
                                    let g = tr.pos[c].rip - tr.base;
                                    let inv = if self.lt.seqs.iter().any(|s| s.end == g) { "step_skips_callee_row_at_end_sequence_address" } else { "step_skipped_callee" };
                                    self.violate("C03", inv, format!("step from ref index {i} landed at {j}, skipping the first line of the callee entered at {k} (bound {c}, {})", self.off(tr.pos[c].rip)));
                                }
                            }
                            break;
                        }
                    }
                }
                bump(&mut self.stats, "c03.step_admissible");
            }
            _ => {}
        }
    }

    fn check_restart(&mut self, outcome: &Outcome) {
        let _ = outcome;
    }

    /// C02 (i): every file-backed executable mapping equals the file, except 0xCC at allowed
    /// addresses; every armed user breakpoint is really patched.
    fn check_ledger(&mut self) {
        let maps = ns::maps(self.pid);
        if maps.is_empty() {
            return;
        }
        bump(&mut self.stats, "c02.ledger_checked");
        let armed = self.armed_set();
        let mut diffs: Vec<(u64, u8, u8)> = vec![];
        let mut compared = 0u64;
        for m in maps.iter().filter(|m| m.perms.contains('x') && m.path.starts_with('/')) {
            if !self.file_text.contains_key(&m.path) {
                let d = std::fs::read(&m.path).unwrap_or_default();
                self.file_text.insert(m.path.clone(), d);
            }
            let file = &self.file_text[&m.path];
            let len = (m.end - m.start) as usize;
            let Some(mem) = ns::read_mem(self.pid, m.start, len) else { continue };
            let off = m.offset as usize;
            if off >= file.len() {
                continue;
            }
            let cmp = len.min(file.len() - off);
            compared += cmp as u64;
            if mem[..cmp] != file[off..off + cmp] {
                for k in 0..cmp {
                    if mem[k] != file[off + k] {
                        diffs.push((m.start + k as u64, file[off + k], mem[k]));
                        if diffs.len() > 64 {
                            break;
                        }
                    }
                }
            }
            // remember the dynamic linker's r_brk candidate
            if m.path.contains("ld-linux") && !self.allowed_internal.iter().any(|a| *a >= m.start && *a < m.end) {
                if let Some(a) = ld_debug_state(&m.path) {
                    self.allowed_internal.insert(m.start - m.offset + a);
                }
            }
        }
        add(&mut self.stats, "c02.ledger_bytes", compared);
        let mut patched: BTreeSet<u64> = BTreeSet::new();
        for (a, orig, now) in diffs {
            if now == 0xCC && (armed.contains(&a) || self.allowed_internal.contains(&a)) {
                patched.insert(a);
                continue;
            }
            let d = format!("text byte at {} is {now:#04x}, file has {orig:#04x}; not an armed user breakpoint or documented internal one", self.off(a));
            self.violate("C02", "stray_patch", d);
        }
        for a in &armed {
            // an armed breakpoint whose original byte is itself 0xCC cannot be told apart
            if !patched.contains(a) && self.tr.in_text(*a) {
                let orig = self.file_byte(*a);
                if orig != Some(0xCC) {
                    self.violate("C02", "armed_not_patched", format!("armed breakpoint {} is not patched in memory", self.off(*a)));
                }
            }
        }
    }

    fn file_byte(&self, abs: u64) -> Option<u8> {
        let f = self.file_text.get(&self.bin)?;
        // exe: file offset == vaddr for the text segment of these binaries only if p_offset == p_vaddr;
        // use the mapping table instead
        let maps = ns::maps(self.pid);
        let m = maps.iter().find(|m| m.path == self.bin && abs >= m.start && abs < m.end)?;
        f.get((abs - m.start + m.offset) as usize).copied()
    }

    /// C02 (ii): every POKE into text arms (orig -> CC) or restores (CC -> orig) one byte.
    fn check_pokes(&mut self, hist: &[SysRec]) {
        let maps = ns::maps(self.pid);
        let mut last_peek: BTreeMap<u64, u64> = BTreeMap::new();
        for r in hist {
            if let SysRec::Ptrace { req, addr, data, ret, errno, .. } = r {
                if (*req == seam::PTRACE_PEEKTEXT || *req == seam::PTRACE_PEEKDATA) && *errno == 0 {
                    last_peek.insert(*addr, *ret as u64);
                }
                if (*req == seam::PTRACE_POKETEXT || *req == seam::PTRACE_POKEDATA) && *ret == 0 {
                    let Some(m) = maps.iter().find(|m| *addr >= m.start && *addr < m.end) else { continue };
                    if !(m.perms.contains('x') && m.path.starts_with('/')) {
                        continue;
                    }
                    bump(&mut self.stats, "c02.text_pokes");
                    let low = (*data & 0xff) as u8;
                    let orig = self.file_text.get(&m.path).and_then(|f| f.get((*addr - m.start + m.offset) as usize).copied());
                    if low != 0xCC && Some(low) != orig {
                        self.violate("C02", "poke_wrong_byte", format!("POKE at {} writes low byte {low:#04x}: neither INT3 nor the original {orig:?}", self.off(*addr)));
                    }
                    if let Some(p) = last_peek.get(addr) {
                        if p & !0xff != *data & !0xff {
                            self.violate("C02", "poke_clobbers_neighbours", format!("POKE at {} changes bytes 1..7: peeked {p:#x}, poked {data:#x}", self.off(*addr)));
                        }
                    }
                    last_peek.insert(*addr, *data);
                }
            }
        }
    }

    /// C05: the backtrace is the shadow stack.
    fn check_backtrace(&mut self, j: usize) {
        let tr = self.tr;
        let rip = tr.pos[j].rip;
        if !self.fn_syms.iter().any(|(a, s)| rip >= *a && rip < *a + *s) {
            bump(&mut self.stats, "c05.skipped_no_symbol");
            return;
        }
        let stack = tr.stack_at(j);
        let mut expected: Vec<u64> = vec![rip];
        for a in &stack {
            expected.push(tr.acts[*a as usize].ret);
        }
        // intermediate frames must all be ours with unwind info (generated code)
        if expected[1..expected.len() - 1].iter().any(|ip| !self.fn_syms.iter().any(|(a, s)| *ip >= *a && *ip < *a + *s)) {
            bump(&mut self.stats, "c05.skipped_no_symbol");
            return;
        }
        let dbg = self.dbg.as_ref().unwrap();
        let bt = match dbg.backtrace(Pid::from_raw(self.pid)) {
            Ok(bt) => bt,
            Err(e) => {
                let d = format!("backtrace failed at ref index {j}: {e}");
                self.violate("C05", "backtrace_error", d);
                return;
            }
        };
        bump(&mut self.stats, "c05.backtrace_checked");
        add(&mut self.stats, "c05.frames_checked", expected.len() as u64);
        let depth = stack.len() as u64;
        let e = self.stats.entry("c05.max_depth".into()).or_default();
        *e = (*e).max(depth);
        let got: Vec<u64> = bt.iter().map(|f| f.ip.as_u64()).collect();
        let mut recursion = false;
        {
            let mut seen = BTreeSet::new();
            for x in &expected[1..] {
                if !seen.insert(*x) {
                    recursion = true;
                }
            }
        }
        if recursion {
            bump(&mut self.stats, "c05.recursive_stack");
        }
        if got.len() < expected.len() || got[..expected.len()] != expected[..] {
            let k = (0..expected.len()).find(|&k| got.get(k) != Some(&expected[k])).unwrap_or(0);
            let d = format!("at ref index {j}: frame {k} ip {:?} expected {} ({} frames reported, {} expected{})", got.get(k).map(|a| self.off(*a)), self.off(expected[k]), got.len(), expected.len(), if recursion { ", recursive stack" } else { "" });
            let inv = if recursion && got.len() < expected.len() && got[..] == expected[..got.len()] { "truncated_on_recursion" } else { "frame_mismatch" };
            self.violate("C05", inv, d);
            return;
        }
        // CFA / return address of the selected (innermost) frame
        match dbg.frame_info() {
            Ok(fi) => {
                let a0 = &tr.acts[stack[0] as usize];
                bump(&mut self.stats, "c05.frame_info_checked");
                if fi.cfa.as_u64() != a0.slot + 8 {
                    let d = format!("frame_info.cfa {:#x} expected {:#x} at ref index {j}", fi.cfa.as_u64(), a0.slot + 8);
                    self.violate("C05", "cfa", d);
                }
                if fi.return_addr.map(|a| a.as_u64()) != Some(a0.ret) {
                    let d = format!("frame_info.return_addr {:?} expected {} at ref index {j}", fi.return_addr.map(|a| self.off(a.as_u64())), self.off(a0.ret));
                    self.violate("C05", "return_addr", d);
                }
            }
            Err(_) => {
                bump(&mut self.stats, "c05.frame_info_err");
            }
        }
    }
}

fn ld_debug_state(path: &str) -> Option<u64> {
    use object::{Object, ObjectSymbol};
    let data = std::fs::read(path).ok()?;
    let obj = object::File::parse(&*data).ok()?;
    for s in obj.dynamic_symbols().chain(obj.symbols()) {
        if s.name() == Ok("_dl_debug_state") {
            return Some(s.address());
        }
    }
    None
}

// ---------------------------------------------------------------------- workload

struct Mix {
    bp: usize,
    rm: usize,
    cont: usize,
    stepi: usize,
    step: usize,
    next: usize,
    finish: usize,
    restart: usize,
}

fn mix_for(property: &str) -> Mix {
    match property {
        "C01" => Mix { bp: 30, rm: 14, cont: 44, stepi: 8, step: 1, next: 1, finish: 2, restart: 0 },
        "C03" => Mix { bp: 8, rm: 3, cont: 14, stepi: 15, step: 22, next: 22, finish: 16, restart: 0 },
        "C05" => Mix { bp: 12, rm: 3, cont: 25, stepi: 35, step: 10, next: 5, finish: 10, restart: 0 },
        _ => Mix { bp: 18, rm: 8, cont: 26, stepi: 10, step: 12, next: 12, finish: 12, restart: 2 },
    }
}

fn gen_op(s: &Session, t: &mut Tape, mix: &Mix, stmt_lines: &[u64], fns: &[String]) -> Op {
    let tr = s.tr;
    let total = mix.bp + mix.rm + mix.cont + mix.stepi + mix.step + mix.next + mix.finish + mix.restart;
    let mut k = t.choose(total);
    let mut take = |w: usize| {
        if k < w {
            true
        } else {
            k -= w;
            false
        }
    };
    if take(mix.bp) {
        return match t.choose(10) {
            0..=3 => {
                // an address of the reference execution, biased to the future
                let from = match s.pos {
                    Where::At(i) => i,
                    Where::Foreign { lb, .. } => lb,
                    _ => 0,
                };
                let idx = if t.chance(3, 4) && from + 1 < tr.pos.len() { from + 1 + t.choose((tr.pos.len() - from - 1).min(400)) } else { t.choose(tr.pos.len()) };
                Op::BpAddr(tr.pos[idx].rip)
            }
            4..=7 => Op::BpLine(if t.chance(1, 12) { 1 + t.choose(200) as u64 } else { stmt_lines[t.choose(stmt_lines.len())] }),
            _ => Op::BpFn(fns[t.choose(fns.len())].clone()),
        };
    }
    if take(mix.rm) {
        let armed: Vec<(u64, u32)> = s.armed.iter().map(|(a, n)| (*a, *n)).collect();
        return match t.choose(8) {
            0..=2 if !armed.is_empty() => Op::RmAddr(armed[t.choose(armed.len())].0),
            3..=4 if !armed.is_empty() => Op::RmNum(armed[t.choose(armed.len())].1),
            5 if !s.line_addrs.is_empty() => Op::RmLine(*s.line_addrs.keys().nth(t.choose(s.line_addrs.len())).unwrap()),
            6 if !s.fn_addrs.is_empty() => Op::RmFn(s.fn_addrs.keys().nth(t.choose(s.fn_addrs.len())).unwrap().clone()),
            _ => match t.choose(3) {
                0 => Op::RmNum(1000 + t.choose(10) as u32),
                1 => Op::RmLine(stmt_lines[t.choose(stmt_lines.len())]),
                _ => Op::RmAddr(tr.pos[t.choose(tr.pos.len())].rip),
            },
        };
    }
    if take(mix.cont) {
        return Op::Continue;
    }
    if take(mix.stepi) {
        return Op::Stepi;
    }
    if take(mix.step) {
        return Op::Step;
    }
    if take(mix.next) {
        return Op::Next;
    }
    if take(mix.finish) {
        return Op::Finish;
    }
    Op::Restart
}

pub fn run(spec: &WorkerSpec) -> WorkerResult {
    let bin = Path::new(&spec.bin);
    let tr = match reftrace::trace_cached(bin) {
        Ok(t) => t,
        Err(e) => return WorkerResult { verdict: "harness_error".into(), detail: format!("reftrace: {e}"), ..Default::default() },
    };
    let lt = match crate::linetab::load(bin) {
        Ok(t) => t,
        Err(e) => return WorkerResult { verdict: "harness_error".into(), detail: format!("linetab: {e}"), ..Default::default() },
    };
    let mut tape = match &spec.tape {
        Some(t) => Tape::replay(t.clone()),
        None => Tape::record(spec.seed),
    };
    seam::start_recording();
    let mut s = match Session::new(spec, &tr, &lt) {
        Ok(s) => s,
        Err(e) => return WorkerResult { verdict: "harness_error".into(), detail: e, ..Default::default() },
    };
    let stmt_lines: Vec<u64> = lt.stmt_lines(s.file_id).into_iter().collect();
    let fns = spec.program.functions.clone();
    let mix = mix_for(&spec.property);
    let max_ops = spec.params.get("max_ops").and_then(|v| v.as_u64()).unwrap_or(40) as usize;
    let nops = 8 + tape.choose(max_ops.saturating_sub(8).max(1));
    // before start: a few breakpoint requests
    let pre = tape.choose(4);
    for _ in 0..pre {
        let m = Mix { bp: 10, rm: 2, cont: 0, stepi: 0, step: 0, next: 0, finish: 0, restart: 0 };
        let op = gen_op(&s, &mut tape, &m, &stmt_lines, &fns);
        s.exec(&op);
    }
    if tape.chance(1, 10) {
        let op = [Op::Continue, Op::Stepi, Op::Next, Op::Finish][tape.choose(4)].clone();
        s.exec(&op);
    }
    s.exec(&Op::Start);
    for _ in 0..nops {
        if let Ok(mut p) = crate::PARTIAL.lock() {
            p.1 = tape.rec.clone();
        }
        if s.pos == Where::Exited && tape.chance(2, 3) {
            break;
        }
        let op = gen_op(&s, &mut tape, &mix, &stmt_lines, &fns);
        if matches!(op, Op::Restart) && !spec.params.contains_key("allow_restart") {
            continue;
        }
        s.exec(&op);
    }
    // C02 (iii): remove every breakpoint, run to completion, compare with the native run
    if s.pos != Where::Exited {
        let nums: Vec<u32> = s.armed.values().copied().collect();
        for n in nums {
            s.exec(&Op::RmNum(n));
        }
        s.exec(&Op::Continue);
    }
    s.drain_output();
    if s.pos == Where::Exited && s.restarts == 0 {
        bump(&mut s.stats, "c02.output_checked");
        // give the pipe a moment: the writer side is closed once the debugger is dropped
        let out = String::from_utf8_lossy(&s.stdout).to_string();
        if out != tr.stdout {
            s.violate("C02", "output_differs", format!("debuggee output {:?} differs from native {:?}", out, tr.stdout));
        }
        if let Some(c) = s.exit_code {
            if c != tr.exit_code {
                s.violate("C02", "exit_status_differs", format!("exit status {c} differs from native {}", tr.exit_code));
            }
        }
    }
    let dbg = s.dbg.take();
    drop(dbg);
    let mut stats = s.stats.clone();
    add(&mut stats, "positions", tr.pos.len() as u64);
    let verdict = if s.violations.is_empty() { "ok" } else { "violation" };
    WorkerResult { verdict: verdict.into(), violations: s.violations.clone(), detail: String::new(), log: s.log.clone(), tape: tape.rec.clone(), stats, ops: s.step_no, seam_calls: seam::N_PTRACE.load(std::sync::atomic::Ordering::Relaxed) + seam::N_WAIT.load(std::sync::atomic::Ordering::Relaxed) }
}

//! Layer A: a single-tracee session of the real debugger checked, operation by operation,
//! as a refinement of `RefExec` (the independently recorded execution), plus cross
//! invariants after every step (text ledger, backtrace vs shadow stack, hook events).

use crate::linetab::LineTable;
use crate::ns;
use crate::reftrace::{self, RefTrace};
use crate::rng::Tape;
use crate::seam::{self, SysRec, raw};
use crate::worker::{Violation, WorkerResult, WorkerSpec, add, bump};
use bugstalker::debugger::address::{Address, RelocatedAddress};
use bugstalker::debugger::process::Child;
use bugstalker::debugger::register::debug::{BreakCondition, BreakSize};
use bugstalker::debugger::variable::dqe::{Dqe, Literal, Selector};
use bugstalker::debugger::variable::value::Value;
use bugstalker::debugger::{Debugger, DebuggerBuilder, Error, EventHook, FunctionInfo, PlaceDescriptor, StopReason};
use nix::sys::signal::Signal;
use nix::unistd::Pid;
use std::cell::RefCell;
use std::collections::{BTreeMap, BTreeSet};
use std::io::Read;
use std::path::Path;
use std::rc::Rc;

#[derive(Clone, Debug, PartialEq)]
pub enum Ev {
    Breakpoint { pc: u64, num: u32, line: Option<(String, u64)>, thread: Option<u32> },
    Step { pc: u64, line: Option<(String, u64)> },
    Signal(i32),
    Exit(i32),
    Watchpoint { pc: u64, num: u32, end_of_scope: bool },
    Install(i32),
}

#[derive(Clone, Default)]
pub struct Events(pub Rc<RefCell<Vec<Ev>>>);

fn place_line(p: &Option<PlaceDescriptor>) -> Option<(String, u64)> {
    p.as_ref().map(|p| (p.file.to_string_lossy().to_string(), p.line_number))
}

impl EventHook for Events {
    fn on_breakpoint(&self, pc: RelocatedAddress, num: u32, place: Option<PlaceDescriptor>, _f: Option<&FunctionInfo>, thread: Option<u32>) -> anyhow::Result<()> {
        self.0.borrow_mut().push(Ev::Breakpoint { pc: pc.as_u64(), num, line: place_line(&place), thread });
        Ok(())
    }
    fn on_watchpoint(&self, pc: RelocatedAddress, num: u32, _p: Option<PlaceDescriptor>, _c: BreakCondition, _d: Option<&str>, _o: Option<&Value>, _n: Option<&Value>, end_of_scope: bool) -> anyhow::Result<()> {
        self.0.borrow_mut().push(Ev::Watchpoint { pc: pc.as_u64(), num, end_of_scope });
        Ok(())
    }
    fn on_step(&self, pc: RelocatedAddress, place: Option<PlaceDescriptor>, _f: Option<&FunctionInfo>, _t: Option<u32>) -> anyhow::Result<()> {
        self.0.borrow_mut().push(Ev::Step { pc: pc.as_u64(), line: place_line(&place) });
        Ok(())
    }
    fn on_async_step(&self, _pc: RelocatedAddress, _p: Option<PlaceDescriptor>, _f: Option<&FunctionInfo>, _t: u64, _c: bool) -> anyhow::Result<()> {
        Ok(())
    }
    fn on_signal(&self, signal: Signal) {
        self.0.borrow_mut().push(Ev::Signal(signal as i32));
    }
    fn on_exit(&self, code: i32) {
        self.0.borrow_mut().push(Ev::Exit(code));
    }
    fn on_process_install(&self, pid: Pid, _o: Option<&object::File>) {
        self.0.borrow_mut().push(Ev::Install(pid.as_raw()));
    }
}

#[derive(Clone, Copy, Debug, PartialEq)]
pub enum Where {
    NotStarted,
    At(usize),
    /// outside traced code; `lb` = last index known to be executed
    Foreign { lb: usize, tick: u64 },
    Exited,
}

#[derive(Clone, Debug)]
pub enum Op {
    Start,
    BpAddr(u64),
    BpLine(u64),
    BpFn(String),
    RmAddr(u64),
    RmLine(u64),
    RmFn(String),
    RmNum(u32),
    Continue,
    Stepi,
    Step,
    Next,
    Finish,
    Restart,
    Call(String, Vec<i64>),
    CallBad(u8),
    WatchMem(u64, u8, bool),
    RmWatchNum(u32),
    RmWatchAddr(u64),
    Detach,
    Drop,
    /// C15: read n bytes at a
    ReadMem(u64, usize),
    /// C15: write one word at a (then verified and restored by the harness)
    WriteWord(u64, u64),
    /// C15: set a register, verify, restore
    RegSet(String, u64),
    /// C15: disassemble the current function
    Disasm,
    /// C05: select frame k of the focused thread
    SelectFrame(u32),
    /// C14: watch a local variable by name (scoped watchpoint with a companion breakpoint)
    WatchExpr(String, bool),
    /// fault: a signal (default action: ignore) is sent to the stopped debuggee from outside; it
    /// is pending when the next command resumes the program
    SignalAtPrompt(i32),
}

#[derive(Debug)]
pub enum Outcome {
    Stop(StopKind),
    Done,
    Err(String),
}
#[derive(Debug, Clone, PartialEq)]
pub enum StopKind {
    Breakpoint(u64),
    Signal(i32),
    Exit(i32),
    Watchpoint(u64),
    Start,
    NoSuchProcess,
}

fn stop_kind(r: &StopReason) -> StopKind {
    match r {
        StopReason::DebugeeExit(c) => StopKind::Exit(*c),
        StopReason::DebugeeStart => StopKind::Start,
        StopReason::Breakpoint(_, a) => StopKind::Breakpoint(a.as_u64()),
        StopReason::Watchpoint(_, a, _) => StopKind::Watchpoint(a.as_u64()),
        StopReason::SignalStop(_, s) => StopKind::Signal(*s as i32),
        StopReason::NoSuchProcess(_) => StopKind::NoSuchProcess,
    }
}

#[derive(Default)]
pub struct Pre {
    regs: Option<libc::user_regs_struct>,
    maps: String,
    calln: Option<u64>,
    snapshot: Vec<(u32, u64)>,
    dr: Option<[u64; 8]>,
}

pub struct Session<'a> {
    pub dbg: Option<Debugger>,
    pub pid: i32,
    pub tr: &'a RefTrace,
    pub lt: &'a LineTable,
    pub file_id: u32,
    pub src_file: String,
    pub bin: String,
    pub events: Events,
    pub pos: Where,
    /// model: armed user breakpoints, absolute address -> number reported by the debugger
    pub armed: BTreeMap<u64, u32>,
    /// addresses each line / function request denoted (learned from the debugger's answers)
    pub line_addrs: BTreeMap<u64, BTreeSet<u64>>,
    pub fn_addrs: BTreeMap<String, BTreeSet<u64>>,
    pub log: Vec<String>,
    pub violations: Vec<Violation>,
    pub stats: BTreeMap<String, u64>,
    pub step_no: usize,
    pub reader: os_pipe::PipeReader,
    pub stdout: Vec<u8>,
    pub file_text: BTreeMap<String, Vec<u8>>,
    pub fn_syms: Vec<(u64, u64)>,
    pub allowed_internal: BTreeSet<u64>,
    pub exit_code: Option<i32>,
    pub restarts: u32,
    /// TICK offset caused by debugger-initiated calls of ticking functions
    pub tick_delta: u64,
    pub data: BTreeMap<String, u64>,
    /// model: active watchpoints number -> (addr, size, rw)
    pub watches: BTreeMap<u32, (u64, u8, bool)>,
    pub calls_made: u64,
    pub detached: bool,
    pub detach_ledger: Option<Vec<String>>,
    /// frame selected by the user (reset to 0 by everything that moves the thread)
    pub sel_frame: usize,
    /// scoped (expression) watchpoints: number -> activation whose local is watched
    pub scoped: BTreeMap<u32, u32>,
    /// position at which each scoped watchpoint was created
    pub scoped_added_at: BTreeMap<u32, usize>,
    /// the history ends here: the debugger's breakpoint table no longer matches what the user set
    pub truncate: bool,
    /// a signal sent at the prompt that the next resuming command must run into
    pub pending_sig: Option<i32>,
    /// addresses requested more than once under different numbers (e.g. by line and by address
    /// before start): which number survives is the debugger's choice, not judged
    pub ambiguous_number: BTreeSet<u64>,
    /// the text ledger had no complaint after the previous operation
    pub ledger_clean_before_op: bool,
    /// companion breakpoints learned from the text ledger: address -> watch numbers
    pub companions: BTreeMap<u64, BTreeSet<u32>>,
    /// where the end-of-scope companion of each scoped watchpoint can be: the address that got
    /// patched when it was created, or (no new patch: the companion is shared) every companion
    /// address alive at that moment
    pub comp_of: BTreeMap<u32, BTreeSet<u64>>,
    /// watchpoints on locals that the debugger kept past their scope (KF-C14-1): still compared
    /// (registers, list, companion patch), dropped with the process like every watchpoint on a local
    pub zombies: BTreeSet<u32>,
}

fn err_str(e: &Error) -> String {
    format!("{e}")
}

impl<'a> Session<'a> {
    pub fn new(spec: &WorkerSpec, tr: &'a RefTrace, lt: &'a LineTable) -> Result<Self, String> {
        let (reader, writer) = os_pipe::pipe().map_err(|e| e.to_string())?;
        unsafe {
            let fl = libc::fcntl(std::os::fd::AsRawFd::as_raw_fd(&reader), libc::F_GETFL);
            libc::fcntl(std::os::fd::AsRawFd::as_raw_fd(&reader), libc::F_SETFL, fl | libc::O_NONBLOCK);
        }
        bugstalker::debugger::rust::Environment::init(None);
        let runner = Child::new(spec.bin.clone(), Vec::<String>::new(), None::<&Path>, writer.try_clone().map_err(|e| e.to_string())?, writer);
        let process = runner.install().map_err(|e| format!("install: {e}"))?;
        let pid = process.pid().as_raw();
        let events = Events::default();
        let dbg = DebuggerBuilder::<Events>::new().with_hooks(events.clone()).build(process).map_err(|e| format!("build: {e}"))?;
        drop(runner);
        let file_id = lt.file_id(&spec.src_file).ok_or("source file not in line table")?;
        let info = reftrace::elf_info(Path::new(&spec.bin))?;
        let fn_syms = info.symbols.iter().map(|(_, a, s)| (tr.base + a, *s)).collect();
        let mut allowed_internal = BTreeSet::new();
        allowed_internal.insert(tr.base + info.entry);
        Ok(Session {
            dbg: Some(dbg),
            pid,
            tr,
            lt,
            file_id,
            src_file: spec.src_file.clone(),
            bin: spec.bin.clone(),
            events,
            pos: Where::NotStarted,
            armed: BTreeMap::new(),
            line_addrs: BTreeMap::new(),
            fn_addrs: BTreeMap::new(),
            log: vec![],
            violations: vec![],
            stats: BTreeMap::new(),
            step_no: 0,
            reader,
            stdout: vec![],
            file_text: BTreeMap::new(),
            fn_syms,
            allowed_internal,
            exit_code: None,
            restarts: 0,
            tick_delta: 0,
            data: info.data.iter().map(|(k, v)| (k.clone(), tr.base + v)).collect(),
            watches: BTreeMap::new(),
            calls_made: 0,
            detached: false,
            detach_ledger: None,
            sel_frame: 0,
            scoped: BTreeMap::new(),
            scoped_added_at: BTreeMap::new(),
            truncate: false,
            pending_sig: None,
            ambiguous_number: BTreeSet::new(),
            ledger_clean_before_op: true,
            companions: BTreeMap::new(),
            comp_of: BTreeMap::new(),
            zombies: BTreeSet::new(),
        })
    }

    pub fn logf(&mut self, s: String) {
        if let Ok(mut p) = crate::PARTIAL.lock() {
            p.0.push(s.clone());
        }
        self.log.push(s);
    }
    pub fn violate(&mut self, property: &str, invariant: &str, detail: String) {
        let v = Violation { property: property.into(), invariant: invariant.into(), detail, step: self.step_no };
        self.logf(format!("  !! {}:{} {}", v.property, v.invariant, v.detail));
        self.violations.push(v);
    }
    fn off(&self, a: u64) -> String {
        if self.tr.in_text(a) { format!("+{:x}", a - self.tr.base) } else { format!("{a:#x}") }
    }
    fn sym_off(&self, a: u64) -> String {
        match self.data.iter().filter(|(_, v)| **v <= a).max_by_key(|(_, v)| **v) {
            Some((n, v)) if a - v < 4096 => format!("{n}+{}", a - v),
            _ => format!("{a:#x}"),
        }
    }
    fn abs(&self, a: Address) -> u64 {
        match a {
            Address::Relocated(r) => r.as_u64(),
            Address::Global(g) => self.tr.base + u64::from(g),
        }
    }
    fn drain_output(&mut self) {
        let mut buf = [0u8; 4096];
        loop {
            match self.reader.read(&mut buf) {
                Ok(0) => break,
                Ok(n) => self.stdout.extend_from_slice(&buf[..n]),
                Err(_) => break,
            }
        }
    }

    /// Where is the tracee really?  Read by the harness, never from BugStalker.
    fn observe(&mut self, from: usize) -> (Where, Option<(u64, u64, u64)>) {
        let regs = match raw::getregs(self.pid) {
            Ok(r) => r,
            Err(_) => return (Where::Exited, None),
        };
        let tick = ns::read_u64(self.pid, self.tr.tick_addr).unwrap_or(u64::MAX).wrapping_sub(self.tick_delta);
        let t = (regs.rip, regs.rsp, tick);
        if !self.tr.in_text(regs.rip) {
            // last index definitely executed: all positions with a smaller tick
            let lb = self.tr.pos.partition_point(|p| p.tick < tick).saturating_sub(1).max(from.saturating_sub(1));
            return (Where::Foreign { lb, tick }, Some(t));
        }
        match self.tr.find(from, regs.rip, regs.rsp, tick) {
            Some(j) => (Where::At(j), Some(t)),
            None => (Where::Foreign { lb: from.saturating_sub(1), tick }, Some(t)),
        }
    }

    fn armed_set(&self) -> BTreeSet<u64> {
        self.armed.keys().copied().collect()
    }

    // ------------------------------------------------------------------ operations

    pub fn exec(&mut self, op: &Op) {
        self.step_no += 1;
        let before = self.pos;
        let ev0 = self.events.0.borrow().len();
        let h0 = seam::history_len();
        let desc = match op {
            Op::BpAddr(a) => format!("BpAddr({})", self.off(*a)),
            Op::RmAddr(a) => format!("RmAddr({})", self.off(*a)),
            Op::WatchMem(a, sz, rw) => format!("WatchMem({} {sz} {})", self.sym_off(*a), if *rw { "rw" } else { "w" }),
            Op::RmWatchAddr(a) => format!("RmWatchAddr({})", self.sym_off(*a)),
            Op::ReadMem(a, n) => format!("ReadMem({} {n})", self.region_off(*a)),
            Op::WriteWord(a, v) => format!("WriteWord({} {v:#x})", self.region_off(*a)),
            _ => format!("{op:?}"),
        };
        let name = format!("{op:?}");
        let opname = name.split('(').next().unwrap().to_string();
        bump(&mut self.stats, &format!("op.{opname}"));
        let pre = self.pre_state(op);
        if matches!(op, Op::Start | Op::Continue | Op::Stepi | Op::Step | Op::Next | Op::Finish | Op::Restart) {
            self.sel_frame = 0;
        }
        let mut dbg = self.dbg.take().unwrap();
        let t_op = std::time::Instant::now();
        let outcome = self.run_op(&mut dbg, op);
        add(&mut self.stats, "time_us.debugger_ops", t_op.elapsed().as_micros() as u64);
        self.dbg = Some(dbg);
        let evs: Vec<Ev> = self.events.0.borrow()[ev0..].to_vec();
        let hist = seam::history_since(h0);
        add(&mut self.stats, "seam_calls", hist.len() as u64);
        // where are we now?
        let is_exec = matches!(op, Op::Start | Op::Continue | Op::Stepi | Op::Step | Op::Next | Op::Finish | Op::Restart);
        let mut obs = None;
        let dead_state = matches!(before, Where::Exited | Where::NotStarted) && !matches!(op, Op::Restart | Op::Start);
        if is_exec && !dead_state {
            let exited = matches!(outcome, Outcome::Stop(StopKind::Exit(_))) || self.dbg_exited();
            if exited {
                self.pos = Where::Exited;
            } else {
                let from = match (before, op) {
                    (_, Op::Restart) | (Where::NotStarted, _) => 0,
                    (Where::At(i), Op::Start) => i,
                    (Where::At(i), _) => i + 1,
                    (Where::Foreign { lb, .. }, _) => lb + 1,
                    (Where::Exited, _) => 0,
                };
                // a failed op must not have moved the program; neither has one that ran into a
                // signal that was pending at the prompt
                let from = if matches!(outcome, Outcome::Err(_)) || self.pending_sig.is_some() { from.saturating_sub(1) } else { from };
                let (w, t) = self.observe(from);
                self.pos = w;
                obs = t;
            }
        }
        let wh = match self.pos {
            Where::At(j) => format!("At({j} {} d{} t{})", self.off(self.tr.pos[j].rip), self.tr.depth(j), self.tr.pos[j].tick),
            Where::Foreign { lb, tick } => format!("Foreign(lb {lb} t{tick})"),
            w => format!("{w:?}"),
        };
        let oc = match &outcome {
            Outcome::Stop(StopKind::Breakpoint(a)) => format!("Breakpoint({})", self.off(*a)),
            Outcome::Stop(StopKind::Watchpoint(a)) => format!("Watchpoint({})", self.off(*a)),
            o => format!("{o:?}"),
        };
        self.logf(format!("{:3} {desc} -> {oc} @ {wh} ev={}", self.step_no, evs.len()));
        if matches!(op, Op::Call(..)) && std::path::Path::new("/verif/scratch/DEBUG").exists() {
            for h in &hist {
                match h {
                    SysRec::Ptrace { req, pid, addr, data, ret, errno } => eprintln!("  ptrace req={req:#x} pid={pid} addr={addr:#x} data={data:#x} ret={ret:#x} errno={errno}"),
                    SysRec::Wait { pid, ret, status, .. } => eprintln!("  wait pid={pid} ret={ret} status={status:#x}"),
                }
            }
        }
        self.check(op, before, &outcome, &evs, &hist, obs, &pre);
        self.drain_output();
    }

    fn dbg_exited(&self) -> bool {
        // harness-side: the main task is gone or a zombie
        matches!(ns::task_state(self.pid, self.pid), 'Z' | 'X')
    }

    fn learn_set(&mut self, views: Vec<(u64, u32)>) -> BTreeSet<u64> {
        let mut s = BTreeSet::new();
        for (a, n) in views {
            if let Some(old) = self.armed.get(&a) {
                if *old != n {
                    self.ambiguous_number.insert(a);
                }
            }
            self.armed.insert(a, n);
            s.insert(a);
        }
        s
    }

    fn run_op(&mut self, dbg: &mut Debugger, op: &Op) -> Outcome {
        let wrap = |r: Result<StopReason, Error>| match r {
            Ok(s) => Outcome::Stop(stop_kind(&s)),
            Err(e) => Outcome::Err(err_str(&e)),
        };
        let unit = |r: Result<(), Error>| match r {
            Ok(()) => Outcome::Done,
            Err(e) => Outcome::Err(err_str(&e)),
        };
        match op {
            Op::Start => wrap(dbg.start_debugee_with_reason()),
            Op::Continue => wrap(dbg.continue_debugee_with_reason()),
            Op::Stepi => unit(dbg.stepi()),
            Op::Step => unit(dbg.step_into()),
            Op::Next => unit(dbg.step_over()),
            Op::Finish => unit(dbg.step_out()),
            Op::Restart => match dbg.restart_debugee() {
                Ok(p) => {
                    self.pid = p.as_raw();
                    self.restarts += 1;
                    self.tick_delta = 0;
                    Outcome::Done
                }
                Err(e) => Outcome::Err(err_str(&e)),
            },
            Op::BpAddr(a) => match dbg.set_breakpoint_at_addr(RelocatedAddress::from(*a)) {
                Ok(v) => {
                    let x = (self.abs(v.addr), v.number);
                    self.learn_set(vec![x]);
                    Outcome::Done
                }
                Err(e) => Outcome::Err(err_str(&e)),
            },
            Op::BpLine(l) => {
                let f = self.src_file.clone();
                match dbg.set_breakpoint_at_line(&f, *l) {
                    Ok(v) => {
                        let views = v.iter().map(|b| (self.abs(b.addr), b.number)).collect();
                        let s = self.learn_set(views);
                        self.line_addrs.insert(*l, s);
                        Outcome::Done
                    }
                    Err(e) => Outcome::Err(err_str(&e)),
                }
            }
            Op::BpFn(n) => match dbg.set_breakpoint_at_fn(n) {
                Ok(v) => {
                    let views = v.iter().map(|b| (self.abs(b.addr), b.number)).collect();
                    let s = self.learn_set(views);
                    self.fn_addrs.insert(n.clone(), s);
                    Outcome::Done
                }
                Err(e) => Outcome::Err(err_str(&e)),
            },
            Op::Call(f, args) => {
                let lits: Vec<Literal> = args.iter().map(|v| Literal::Int(*v)).collect();
                let lits = if f == "probe6" && lits.len() == 6 {
                    let mut l = lits;
                    l[4] = Literal::Bool(args[4] != 0);
                    l
                } else {
                    lits
                };
                unit(dbg.call(f, &lits))
            }
            Op::CallBad(k) => {
                let r = match k {
                    0 => dbg.call("probe2", &[Literal::Int(1)]),
                    1 => dbg.call("no_such_function_xyz", &[Literal::Int(1)]),
                    2 => dbg.call("probe2", &[Literal::String("a".into()), Literal::Int(2)]),
                    3 => dbg.call("probe6", &[Literal::Int(1), Literal::Int(1), Literal::Int(1), Literal::Int(1), Literal::Int(1), Literal::Int(1), Literal::Int(1)]),
                    _ => dbg.call("probe0", &[Literal::Int(1)]),
                };
                unit(r)
            }
            Op::WatchMem(a, sz, rw) => {
                let size = match sz {
                    1 => BreakSize::Bytes1,
                    2 => BreakSize::Bytes2,
                    4 => BreakSize::Bytes4,
                    _ => BreakSize::Bytes8,
                };
                let cond = if *rw { BreakCondition::DataReadsWrites } else { BreakCondition::DataWrites };
                match dbg.set_watchpoint_on_memory(RelocatedAddress::from(*a), size, cond, false) {
                    Ok(v) => {
                        self.watches.insert(v.number, (*a, *sz, *rw));
                        Outcome::Done
                    }
                    Err(e) => Outcome::Err(err_str(&e)),
                }
            }
            Op::RmWatchNum(n) => match dbg.remove_watchpoint_by_number(*n) {
                Ok(v) => {
                    let got = v.map(|v| v.number);
                    let exp = self.watches.get(n).map(|_| *n);
                    self.forget_watch(*n);
                    if got != exp {
                        self.violate("C14", "remove_result", format!("remove watchpoint #{n}: debugger removed {got:?}, model {exp:?}"));
                    }
                    Outcome::Done
                }
                Err(e) => {
                    self.sync_watches_after_failed_remove(dbg);
                    Outcome::Err(err_str(&e))
                }
            },
            Op::RmWatchAddr(a) => match dbg.remove_watchpoint_by_addr(RelocatedAddress::from(*a)) {
                Ok(v) => {
                    let got = v.map(|v| v.number);
                    let exp = self.watches.iter().find(|(_, w)| w.0 == *a).map(|(n, _)| *n);
                    if let Some(n) = exp {
                        self.forget_watch(n);
                    }
                    if got != exp {
                        self.violate("C14", "remove_result", format!("remove watchpoint at {}: debugger removed {got:?}, model {exp:?}", self.sym_off(*a)));
                    }
                    Outcome::Done
                }
                Err(e) => {
                    self.sync_watches_after_failed_remove(dbg);
                    Outcome::Err(err_str(&e))
                }
            },
            Op::Detach => {
                crate::seam::install_world(Box::new(DetachProbe { pid: self.pid, done: false, report: None }));
                let r = dbg.detach();
                if let Some(w) = crate::seam::take_world() {
                    let mut w = w;
                    if let Some(p) = w.as_any().downcast_mut::<DetachProbe>() {
                        self.detach_ledger = p.report.take();
                    }
                }
                self.detached = true;
                unit(r)
            }
            Op::Drop => Outcome::Done, // handled by the caller (the debugger is dropped)
            Op::ReadMem(a, n) => self.op_read_mem(dbg, *a, *n),
            Op::WriteWord(a, v) => self.op_write_word(dbg, *a, *v),
            Op::RegSet(r, v) => self.op_reg_set(dbg, r, *v),
            Op::Disasm => self.op_disasm(dbg),
            Op::WatchExpr(name, rw) => {
                let before = self.patched_exe_addrs();
                let cond = if *rw { BreakCondition::DataReadsWrites } else { BreakCondition::DataWrites };
                match dbg.set_watchpoint_on_expr(name, Dqe::Variable(Selector::by_name(name, false)), cond) {
                    Ok(v) => {
                        let sz = match v.size {
                            BreakSize::Bytes1 => 1,
                            BreakSize::Bytes2 => 2,
                            BreakSize::Bytes4 => 4,
                            BreakSize::Bytes8 => 8,
                        };
                        let (num, addr) = (v.number, v.address.as_u64());
                        self.watches.insert(num, (addr, sz, *rw));
                        if let Where::At(j) = self.pos {
                            let stack = self.tr.stack_at(j);
                            let act = stack[self.sel_frame.min(stack.len() - 1)];
                            self.scoped.insert(num, act);
                            self.scoped_added_at.insert(num, j);
                        }
                        let after = self.patched_exe_addrs();
                        let new: Vec<u64> = after.difference(&before).copied().collect();
                        if new.is_empty() {
                            // the companion already exists (another watchpoint of the same scope)
                            let alive: BTreeSet<u64> = self.companions.iter().filter(|(_, ws)| !ws.is_empty()).map(|(a, _)| *a).collect();
                            if !alive.is_empty() && self.scoped.contains_key(&num) {
                                self.comp_of.insert(num, alive);
                            }
                            let same: Vec<u64> = self.companions.iter().filter(|(_, ws)| ws.iter().any(|w| self.scoped.get(w) == self.scoped.get(&num))).map(|(a, _)| *a).collect();
                            for a in same {
                                self.companions.get_mut(&a).unwrap().insert(num);
                                bump(&mut self.stats, "c14.companion_shared");
                            }
                        }
                        if !new.is_empty() && self.scoped.contains_key(&num) {
                            self.comp_of.insert(num, new.iter().copied().collect());
                        }
                        for a in new {
                            self.allowed_internal.insert(a);
                            self.companions.entry(a).or_default().insert(num);
                        }
                        bump(&mut self.stats, "c14.expr_watch_added");
                        // the user's breakpoints are still the user's breakpoints
                        let listed: BTreeSet<u64> = dbg.breakpoints_snapshot().iter().map(|b| self.abs(b.addr)).collect();
                        let lost: Vec<u64> = self.armed.keys().copied().filter(|a| !listed.contains(a)).collect();
                        if !lost.is_empty() {
                            let d = format!("after adding watchpoint #{num} on `{name}` the user breakpoints {:?} are no longer listed: the end-of-scope companion breakpoint took their place in the breakpoint table", lost.iter().map(|a| self.off(*a)).collect::<Vec<_>>());
                            self.violate("C01", "user_breakpoint_replaced_by_companion", d);
                            self.truncate = true;
                        }
                        Outcome::Done
                    }
                    Err(e) => Outcome::Err(err_str(&e)),
                }
            }
            Op::SignalAtPrompt(sig) => {
                if matches!(self.pos, Where::At(_)) && self.pending_sig.is_none() && !ns::sig_pending(self.pid, self.pid, *sig) {
                    if raw::tgkill(self.pid, self.pid, *sig) == 0 {
                        self.pending_sig = Some(*sig);
                        bump(&mut self.stats, "c10.signal_sent_at_prompt");
                    }
                }
                Outcome::Done
            }
            Op::SelectFrame(k) => match dbg.set_frame_into_focus(*k) {
                Ok(n) => {
                    self.sel_frame = n as usize;
                    Outcome::Done
                }
                Err(e) => Outcome::Err(err_str(&e)),
            },
            Op::RmAddr(a) => {
                // before start and after exit breakpoints are kept under their file (global) address
                let started = !matches!(self.pos, Where::NotStarted | Where::Exited);
                let addr = if started { Address::Relocated(RelocatedAddress::from(*a)) } else { Address::Relocated(RelocatedAddress::from(*a)) };
                let r = dbg.remove_breakpoint(addr);
                // before start a breakpoint may be stored under its global address
                let r = match r {
                    Ok(None) if !started => dbg.remove_breakpoint(Address::Global(((*a - self.tr.base) as usize).into())),
                    r => r,
                };
                match r {
                    Ok(v) => {
                        let removed: Vec<u64> = v.iter().map(|b| self.abs(b.addr)).collect();
                        self.model_remove("RmAddr", removed, Some([*a].into_iter().filter(|a| self.armed.contains_key(a)).collect()));
                        Outcome::Done
                    }
                    Err(e) => Outcome::Err(err_str(&e)),
                }
            }
            Op::RmNum(n) => match dbg.remove_breakpoint_by_number(*n) {
                Ok(v) => {
                    let removed: Vec<u64> = v.iter().map(|b| self.abs(b.addr)).collect();
                    let exp: BTreeSet<u64> = self.armed.iter().filter(|(a, num)| *num == n && !self.ambiguous_number.contains(a)).map(|(a, _)| *a).collect();
                    self.model_remove("RmNum", removed, Some(exp));
                    Outcome::Done
                }
                Err(e) => Outcome::Err(err_str(&e)),
            },
            Op::RmLine(l) => {
                let f = self.src_file.clone();
                match dbg.remove_breakpoint_at_line(&f, *l) {
                    Ok(v) => {
                        let removed: Vec<u64> = v.iter().map(|b| self.abs(b.addr)).collect();
                        let exp = self.line_addrs.get(l).map(|s| s.iter().copied().filter(|a| self.armed.contains_key(a)).collect());
                        self.model_remove("RmLine", removed, exp);
                        Outcome::Done
                    }
                    Err(e) => Outcome::Err(err_str(&e)),
                }
            }
            Op::RmFn(n) => match dbg.remove_breakpoint_at_fn(n) {
                Ok(v) => {
                    let removed: Vec<u64> = v.iter().map(|b| self.abs(b.addr)).collect();
                    let exp = self.fn_addrs.get(n).map(|s| s.iter().copied().filter(|a| self.armed.contains_key(a)).collect());
                    self.model_remove("RmFn", removed, exp);
                    Outcome::Done
                }
                Err(e) => Outcome::Err(err_str(&e)),
            },
        }
    }

    fn model_remove(&mut self, what: &str, removed: Vec<u64>, expected: Option<BTreeSet<u64>>) {
        let removed_set: BTreeSet<u64> = removed.iter().copied().collect();
        for a in &removed {
            if self.armed.remove(a).is_none() {
                let d = format!("{what}: debugger reports removal of {} which was not armed", self.off(*a));
                self.violate("C01", "remove_unknown", d);
            }
        }
        if let Some(exp) = expected {
            if !exp.is_subset(&removed_set) {
                let missing: Vec<String> = exp.difference(&removed_set).map(|a| self.off(*a)).collect();
                self.violate("C01", "remove_incomplete", format!("{what}: armed breakpoints not removed: {missing:?}"));
                // keep the model in line with the debugger's own claim: they remain armed
            }
        }
    }


    // ------------------------------------------------------------------ C15 operations

    /// address as mapping-name+offset (the stack and heap move between kernels, logs must not)
    fn region_off(&self, a: u64) -> String {
        if matches!(self.pos, Where::NotStarted | Where::Exited) {
            return format!("{a:#x}");
        }
        for m in ns::maps(self.pid) {
            if a >= m.start && a < m.end {
                let name = if m.path.is_empty() { "anon".to_string() } else { m.path.rsplit('/').next().unwrap_or("").to_string() };
                return format!("{name}[{}]+{:#x}", m.perms, a - m.start);
            }
            if false && a == m.end {
                let name = if m.path.is_empty() { "anon".to_string() } else { m.path.rsplit('/').next().unwrap_or("").to_string() };
                return format!("{name}[{}]end", m.perms);
            }
        }
        format!("unmapped:{a:#x}")
    }

    fn op_read_mem(&mut self, dbg: &mut Debugger, a: u64, n: usize) -> Outcome {
        let live = !matches!(self.pos, Where::NotStarted | Where::Exited);
        let reference = if live { if n == 0 { Some(vec![]) } else { ns::read_mem(self.pid, a, n) } } else { None };
        let r = dbg.read_memory(a as usize, n);
        if !live {
            if r.is_ok() {
                self.violate("C11", "wrong_state_accepted", format!("read_memory in state {:?} returned Ok", self.pos));
            }
            return match r {
                Ok(_) => Outcome::Done,
                Err(e) => Outcome::Err(err_str(&e)),
            };
        }
        bump(&mut self.stats, "c15.read_checked");
        match (&r, &reference) {
            (Ok(got), Some(exp)) => {
                bump(&mut self.stats, "c15.read_ok_compared");
                if got != exp {
                    let k = got.iter().zip(exp.iter()).position(|(x, y)| x != y).unwrap_or(got.len().min(exp.len()));
                    self.violate("C15", "read_wrong_bytes", format!("read_memory({} , {n}) returned {} bytes, first difference at +{k}: got {:?} expected {:?}", self.region_off(a), got.len(), got.get(k), exp.get(k)));
                }
            }
            (Ok(got), None) => {
                self.violate("C15", "read_invented_bytes", format!("read_memory({}, {n}) returned {} bytes although part of the range is not readable", self.region_off(a), got.len()));
            }
            (Err(e), Some(_)) => {
                // every requested byte is readable, yet the read failed
                let end = a + n as u64;
                let tail = ns::maps(self.pid).iter().any(|m| end <= m.end && end + 8 > m.end) && ns::read_mem(self.pid, a, n + 8 - (n % 8).max(0)).is_none();
                let inv = if tail { "read_fails_near_mapping_end" } else { "read_failed_on_readable_range" };
                self.violate("C15", inv, format!("read_memory({}, {n}) failed ({e}) although every requested byte is readable", self.region_off(a)));
            }
            (Err(_), None) => bump(&mut self.stats, "c15.read_fault_reported"),
        }
        match r {
            Ok(_) => Outcome::Done,
            Err(e) => Outcome::Err(err_str(&e)),
        }
    }

    /// mirror of every readable private mapping around `a` (the mapping itself and its neighbours)
    fn mirror_around(&self, a: u64) -> Vec<(u64, Vec<u8>)> {
        let maps = ns::maps(self.pid);
        let mut out = vec![];
        let idx = maps.iter().position(|m| a >= m.start && a < m.end).or_else(|| maps.iter().position(|m| m.start > a));
        let Some(i) = idx else { return out };
        let lo = i.saturating_sub(1);
        let hi = (i + 2).min(maps.len());
        for m in &maps[lo..hi] {
            if m.path.starts_with("[v") {
                continue;
            }
            let len = ((m.end - m.start) as usize).min(1 << 20);
            if let Some(b) = ns::read_mem(self.pid, m.start, len) {
                out.push((m.start, b));
            }
        }
        out
    }

    fn op_write_word(&mut self, dbg: &mut Debugger, a: u64, v: u64) -> Outcome {
        let live = !matches!(self.pos, Where::NotStarted | Where::Exited);
        if !live {
            let r = dbg.write_memory(a as usize, v as usize);
            if r.is_ok() {
                self.violate("C11", "wrong_state_accepted", format!("write_memory in state {:?} returned Ok", self.pos));
            }
            return match r {
                Ok(_) => Outcome::Done,
                Err(e) => Outcome::Err(err_str(&e)),
            };
        }
        let before = self.mirror_around(a);
        let r = dbg.write_memory(a as usize, v as usize);
        let after = self.mirror_around(a);
        bump(&mut self.stats, "c15.write_checked");
        let mut inside_changed = false;
        // compare by absolute address over what was readable before *and* after (a write just
        // below the stack makes the kernel grow the stack mapping: new pages are not judged)
        let byte_after = |addr: u64| -> Option<u8> { after.iter().find(|(s1, b1)| addr >= *s1 && addr < *s1 + b1.len() as u64).map(|(s1, b1)| b1[(addr - s1) as usize]) };
        'cmp: for (s0, b0) in before.iter() {
            // fast path: identical region at the same place
            if let Some((_, b1)) = after.iter().find(|(s1, b1)| s1 == s0 && b1.len() == b0.len()) {
                if b1 == b0 {
                    continue;
                }
            }
            for k in 0..b0.len() {
                let addr = s0 + k as u64;
                let Some(now) = byte_after(addr) else { continue };
                let within = addr >= a && addr < a + 8;
                if within {
                    let want = v.to_le_bytes()[(addr - a) as usize];
                    if now != b0[k] {
                        inside_changed = true;
                    }
                    if r.is_ok() && now != want {
                        self.violate("C15", "write_wrong_value", format!("write_memory({}, {v:#x}) succeeded but byte +{} holds {now:#04x}, expected {want:#04x}", self.region_off(a), addr - a));
                        break 'cmp;
                    }
                } else if now != b0[k] {
                    self.violate("C15", "write_outside_range", format!("write_memory({}, {v:#x}) changed the byte at {} ({:#04x} -> {now:#04x}), outside [a, a+8)", self.region_off(a), self.region_off(addr), b0[k]));
                    break 'cmp;
                }
            }
        }
        if r.is_ok() {
            // bytes of the range that only became readable through the write itself
            if let Some(nowb) = ns::read_mem(self.pid, a, 8) {
                if nowb != v.to_le_bytes() {
                    self.violate("C15", "write_wrong_value", format!("write_memory({}, {v:#x}) succeeded but the range holds {nowb:x?}", self.region_off(a)));
                }
            }
        }
        if r.is_ok() {
            bump(&mut self.stats, "c15.write_ok");
            if ns::read_mem(self.pid, a, 8).is_none() {
                self.violate("C15", "write_invented_success", format!("write_memory({}) reported success although the range is not fully mapped", self.region_off(a)));
            }
        } else {
            bump(&mut self.stats, "c15.write_fault_reported");
            if inside_changed {
                bump(&mut self.stats, "c15.write_failed_partially_written");
            }
        }
        // restore: the program must continue unperturbed
        for (s0, b0) in &before {
            let lo = a.max(*s0);
            let hi = (a + 8).min(*s0 + b0.len() as u64);
            if lo < hi {
                write_mem(self.pid, lo, &b0[(lo - s0) as usize..(hi - s0) as usize]);
            }
        }
        match r {
            Ok(_) => Outcome::Done,
            Err(e) => Outcome::Err(err_str(&e)),
        }
    }

    fn op_reg_set(&mut self, dbg: &mut Debugger, reg: &str, v: u64) -> Outcome {
        let live = !matches!(self.pos, Where::NotStarted | Where::Exited);
        if !live {
            let r = dbg.set_register_value(reg, v);
            if r.is_ok() {
                self.violate("C11", "wrong_state_accepted", format!("set_register_value in state {:?} returned Ok", self.pos));
            }
            return match r {
                Ok(_) => Outcome::Done,
                Err(e) => Outcome::Err(err_str(&e)),
            };
        }
        let Ok(before) = raw::getregs(self.pid) else { return Outcome::Err("getregs".into()) };
        let r = dbg.set_register_value(reg, v);
        bump(&mut self.stats, "c15.reg_checked");
        let names = ["r15", "r14", "r13", "r12", "rbp", "rbx", "r11", "r10", "r9", "r8", "rax", "rcx", "rdx", "rsi", "rdi", "orig_rax", "rip", "cs", "eflags", "rsp", "ss", "fs_base", "gs_base", "ds", "es", "fs", "gs"];
        let words = |r: &libc::user_regs_struct| -> [u64; 27] { unsafe { std::mem::transmute_copy(r) } };
        let out = match &r {
            Ok(()) => {
                let after = raw::getregs(self.pid).unwrap_or(before);
                let (b, a2) = (words(&before), words(&after));
                for k in 0..27 {
                    if names[k] == reg {
                        if a2[k] != v {
                            self.violate("C15", "register_not_written", format!("set_register_value({reg}, {v:#x}) succeeded but the kernel holds {:#x}", a2[k]));
                        }
                    } else if a2[k] != b[k] {
                        self.violate("C15", "register_write_clobbers", format!("set_register_value({reg}) changed {} ({:#x} -> {:#x})", names[k], b[k], a2[k]));
                    }
                }
                match dbg.get_register_value(reg) {
                    Ok(g) if g == v => bump(&mut self.stats, "c15.reg_roundtrip_ok"),
                    Ok(g) => self.violate("C15", "register_readback", format!("get_register_value({reg}) = {g:#x} after writing {v:#x}")),
                    Err(e) => self.violate("C15", "register_readback", format!("get_register_value({reg}) failed: {e}")),
                }
                Outcome::Done
            }
            Err(e) => {
                if names.contains(&reg) {
                    self.violate("C15", "register_write_refused", format!("set_register_value({reg}, {v:#x}) failed: {e}"));
                }
                Outcome::Err(err_str(e))
            }
        };
        // restore through the kernel, not through the debugger
        let _ = raw::setregs(self.pid, &before);
        out
    }

    fn op_disasm(&mut self, dbg: &mut Debugger) -> Outcome {
        let r = dbg.disasm();
        let j = match self.pos {
            Where::At(j) => j,
            _ => {
                return match r {
                    Ok(_) => Outcome::Done,
                    Err(e) => Outcome::Err(err_str(&e)),
                };
            }
        };
        let rip = self.tr.pos[j].rip;
        let Some((lo, sz)) = self.fn_syms.iter().find(|(a, s)| rip >= *a && rip < *a + *s).copied() else {
            return match r {
                Ok(_) => Outcome::Done,
                Err(e) => Outcome::Err(err_str(&e)),
            };
        };
        let asm = match r {
            Ok(a) => a,
            Err(e) => {
                self.violate("C15", "disasm_failed", format!("disasm at {} failed: {e}", self.off(rip)));
                return Outcome::Err(err_str(&e));
            }
        };
        bump(&mut self.stats, "c15.disasm_checked");
        let armed_inside = self.armed.keys().filter(|a| **a >= lo && **a < lo + sz).count();
        if armed_inside > 0 {
            bump(&mut self.stats, "c15.disasm_with_breakpoints_inside");
        }
        let bounds = match crate::linetab::insn_boundaries(Path::new(&self.bin)) {
            Ok(b) => b,
            Err(_) => return Outcome::Done,
        };
        let (glo, ghi) = (lo - self.tr.base, lo + sz - self.tr.base);
        let exp: Vec<u64> = bounds.range(glo..ghi).copied().collect();
        let got: Vec<u64> = asm.instructions.iter().map(|i| usize::from(i.address) as u64).collect();
        if got != exp {
            let k = got.iter().zip(exp.iter()).position(|(x, y)| x != y).unwrap_or(got.len().min(exp.len()));
            self.violate("C15", "disasm_instruction_boundaries", format!("disassembly of the function at +{glo:x}..+{ghi:x} ({armed_inside} breakpoints armed inside) differs from llvm-objdump of the file at instruction {k}: got {:x?} expected {:x?} ({} vs {} instructions)", got.get(k), exp.get(k), got.len(), exp.len()));
        }
        for i in &asm.instructions {
            let ga = usize::from(i.address) as u64;
            if i.mnemonic.as_deref() == Some("int3") && self.file_byte(self.tr.base + ga) != Some(0xCC) {
                self.violate("C15", "disasm_shows_patch", format!("disassembly shows int3 at +{ga:x} where the file has none"));
                break;
            }
        }
        Outcome::Done
    }

    // ------------------------------------------------------------------ oracles

    fn pre_state(&mut self, op: &Op) -> Pre {
        let mut p = Pre::default();
        let started = !matches!(self.pos, Where::NotStarted | Where::Exited);
        if !started {
            return p;
        }
        match op {
            Op::Call(..) | Op::CallBad(_) => {
                p.regs = raw::getregs(self.pid).ok();
                p.maps = std::fs::read_to_string(format!("/proc/{}/maps", self.pid)).unwrap_or_default();
                p.calln = self.data.get("CALLN").and_then(|a| ns::read_u64(self.pid, *a));
            }
            Op::Restart => {
                p.snapshot = self.dbg.as_ref().unwrap().breakpoints_snapshot().iter().map(|b| (b.number, self.abs(b.addr))).collect();
            }
            Op::WatchMem(..) => {
                p.dr = self.read_dr();
            }
            _ => {}
        }
        p
    }

    /// addresses of the executable's own text whose byte differs from the file
    fn patched_exe_addrs(&mut self) -> BTreeSet<u64> {
        let mut out = BTreeSet::new();
        if matches!(self.pos, Where::NotStarted | Where::Exited) {
            return out;
        }
        // executable mappings and the read-only first segment (ELF header and dynamic tables: where
        // a breakpoint resolved to a line-table row of dead-stripped code, address 0.., lands)
        for m in ns::maps(self.pid).iter().filter(|m| m.path == self.bin && (m.perms.contains('x') || (!m.perms.contains('w') && m.offset == 0))) {
            if !self.file_text.contains_key(&m.path) {
                let d = std::fs::read(&m.path).unwrap_or_default();
                self.file_text.insert(m.path.clone(), d);
            }
            let file = &self.file_text[&m.path];
            let len = (m.end - m.start) as usize;
            let Some(mem) = ns::read_mem(self.pid, m.start, len) else { continue };
            let off = m.offset as usize;
            if off >= file.len() {
                continue;
            }
            let cmp = len.min(file.len() - off);
            for k in 0..cmp {
                if mem[k] != file[off + k] {
                    out.insert(m.start + k as u64);
                }
            }
        }
        out
    }

    /// Removing a watchpoint once the process is gone reports the failed register update
    /// (ESRCH) but the entry is dropped all the same: the model follows the debugger's list then.
    /// With a live process a failed removal must leave everything as it was (checked by the
    /// register image / list comparison that follows every operation).
    fn sync_watches_after_failed_remove(&mut self, dbg: &Debugger) {
        if self.pos != Where::Exited {
            return;
        }
        let listed: BTreeSet<u32> = dbg.watchpoint_list().iter().map(|w| w.number).collect();
        for n in self.watches.keys().copied().collect::<Vec<_>>() {
            if !listed.contains(&n) {
                self.forget_watch(n);
                bump(&mut self.stats, "c14.remove_after_exit_reported_error_but_removed");
            }
        }
    }

    fn forget_watch(&mut self, num: u32) {
        self.watches.remove(&num);
        self.scoped.remove(&num);
        self.comp_of.remove(&num);
        self.zombies.remove(&num);
        let mut gone = vec![];
        for (a, ws) in self.companions.iter_mut() {
            ws.remove(&num);
            if ws.is_empty() {
                gone.push(*a);
            }
        }
        for a in gone {
            self.companions.remove(&a);
            self.allowed_internal.remove(&a);
        }
    }

    /// C14: a watchpoint on a local is removed when execution leaves its scope.
    fn check_scoped_watches(&mut self, evs: &[Ev]) {
        let listed: BTreeSet<u32> = self.dbg.as_ref().unwrap().watchpoint_list().iter().map(|w| w.number).collect();
        for e in evs {
            if let Ev::Watchpoint { num, end_of_scope: true, .. } = e {
                bump(&mut self.stats, "c14.end_of_scope_reported");
                if let (Some(act), Where::At(j)) = (self.scoped.get(num).copied(), self.pos) {
                    if self.tr.pos[j].act != act && self.tr.act_alive_at(act, j) {
                        let d = format!("watchpoint #{num} on a local of activation {act} was ended at ref index {j}, inside activation {} while its own activation is still live", self.tr.pos[j].act);
                        let inv = if self.tr.fn_of_act(self.tr.pos[j].act) == self.tr.fn_of_act(act) { "end_of_scope_taken_by_other_activation_of_same_function" } else { "end_of_scope_in_other_activation" };
                        self.violate("C14", inv, d);
                    }
                }
                self.forget_watch(*num);
            }
        }
        match self.pos {
            Where::At(j) => {
                for (num, act) in self.scoped.clone() {
                    if !self.tr.act_alive_at(act, j) {
                        bump(&mut self.stats, "c14.scope_left");
                        if listed.contains(&num) {
                            // did the activation leave through a path that passes its companion?
                            let from = self.scoped_added_at.get(&num).copied().unwrap_or(0);
                            let to = self.tr.acts[act as usize].ret_idx.unwrap_or(self.tr.pos.len()).min(self.tr.pos.len());
                            let comp: BTreeSet<u64> = self.companions.iter().filter(|(_, ws)| ws.contains(&num)).map(|(a, _)| *a).collect();
                            let passed = self.tr.pos[(from + 1).min(to)..to].iter().any(|p| p.act == act && comp.contains(&p.rip));
                            let inv = if passed { "scoped_watchpoint_outlives_scope" } else { "scoped_watchpoint_outlives_scope_exit_bypasses_companion" };
                            self.violate("C14", inv, format!("watchpoint #{num} on a local of activation {act} is still listed at ref index {j}, after that activation returned (companion breakpoints {:x?} {} executed by that activation on its way out)", comp.iter().map(|a| a - self.tr.base).collect::<Vec<_>>(), if passed { "were" } else { "were not" }));
                            // the debugger keeps it: so does the model (registers, list, companion patch)
                            self.scoped.remove(&num);
                            self.zombies.insert(num);
                        } else {
                            self.forget_watch(num);
                        }
                    }
                }
            }
            Where::Exited => {
                for num in self.scoped.keys().copied().chain(self.zombies.iter().copied()).collect::<Vec<_>>() {
                    self.forget_watch(num);
                }
            }
            _ => {}
        }
    }

    /// C14: while a watchpoint on a local is alive, its end-of-scope companion breakpoint is in
    /// place (otherwise nothing will end the watchpoint when execution leaves the scope).  The
    /// companion's address is known when its creation patched a byte; when it is shared with an
    /// older watchpoint it is one of the companions alive at creation: at least one of them must
    /// still be patched.  Removing the *other* watchpoint of a shared companion must not take
    /// the companion away.
    fn check_companions_alive(&mut self) {
        for (num, cands) in self.comp_of.clone() {
            if !self.watches.contains_key(&num) || !self.scoped.contains_key(&num) {
                continue;
            }
            bump(&mut self.stats, "c14.companion_presence_checked");
            if cands.len() > 1 || self.companions.values().any(|ws| ws.contains(&num) && ws.len() > 1) {
                bump(&mut self.stats, "c14.companion_presence_checked_shared");
            }
            let patched = cands.iter().any(|a| {
                ns::read_mem(self.pid, *a, 1).map(|b| b[0] == 0xCC).unwrap_or(true) || self.file_byte(*a) == Some(0xCC)
            });
            if !patched {
                let d = format!("watchpoint #{num} on a local is listed, but its end-of-scope companion breakpoint (at {:x?}) is no longer in the code: nothing ends the watchpoint when execution leaves the scope", cands.iter().map(|a| a - self.tr.base).collect::<Vec<_>>());
                self.violate("C14", "companion_gone_while_scoped_watchpoint_alive", d);
                self.comp_of.remove(&num);
            }
        }
    }

    fn read_dr(&self) -> Option<[u64; 8]> {
        let mut d = [0u64; 8];
        for (i, slot) in d.iter_mut().enumerate() {
            if i == 4 || i == 5 {
                continue;
            }
            *slot = raw::peek(seam::PTRACE_PEEKUSER, self.pid, DR_OFFSET + 8 * i as u64).ok()?;
        }
        Some(d)
    }

    fn check(&mut self, op: &Op, before: Where, outcome: &Outcome, evs: &[Ev], hist: &[SysRec], obs: Option<(u64, u64, u64)>, pre: &Pre) {
        match op {
            Op::Call(..) | Op::CallBad(_) => self.check_call(op, before, outcome, pre),
            Op::WatchMem(a, sz, rw) => self.check_watch_add(*a, *sz, *rw, outcome, pre),
            Op::Detach => self.check_detach(outcome),
            Op::Start | Op::Continue => self.check_continue(op, before, outcome, evs, obs),
            Op::Stepi | Op::Step | Op::Next | Op::Finish => self.check_step(op, before, outcome, evs, obs),
            Op::Restart => self.check_restart(outcome, pre),
            _ => {}
        }
        if !matches!(self.pos, Where::NotStarted | Where::Exited) {
            let t0 = std::time::Instant::now();
            let nv = self.violations.len();
            self.check_ledger();
            add(&mut self.stats, "time_us.ledger", t0.elapsed().as_micros() as u64);
            let clean_now = self.violations.len() == nv;
            if matches!(op, Op::Call(..) | Op::CallBad(_)) && self.violations.len() > nv && self.ledger_clean_before_op {
                // "restores ... every byte of code it touched" / "a call that cannot be made ...
                // still restores the state": the ledger right after a call belongs to C16 too
                let d = self.violations[nv..].iter().map(|v| format!("{}: {}", v.invariant, v.detail)).collect::<Vec<_>>().join("; ");
                self.violate("C16", "code_not_restored_after_call", format!("after {op:?}: {d}"));
            }
            self.ledger_clean_before_op = clean_now;
            if !matches!(op, Op::Call(..) | Op::CallBad(_) | Op::WriteWord(..)) {
                self.check_pokes(hist);
            }
            // (a watchpoint kept past its scope -- KF-C14-1 -- is no longer in `scoped`, but it is
            // still ended when some later activation reaches its companion)
            if !self.scoped.is_empty() || evs.iter().any(|e| matches!(e, Ev::Watchpoint { end_of_scope: true, .. })) {
                self.check_scoped_watches(evs);
            }
            if !self.comp_of.is_empty() {
                self.check_companions_alive();
            }
            self.check_debug_registers();
        } else if self.pos == Where::Exited && (!self.scoped.is_empty() || !self.zombies.is_empty()) {
            self.check_scoped_watches(evs);
        }
        if let Where::At(j) = self.pos {
            let t0 = std::time::Instant::now();
            self.check_backtrace(j);
            add(&mut self.stats, "time_us.backtrace", t0.elapsed().as_micros() as u64);
        }
    }

    /// Breakpoints requested by address before the process exists are materialised at start; an
    /// address without any line-table place is refused there (as it is refused when requested
    /// after start).  The model follows that documented refusal, and nothing else.
    fn sync_armed_after_start(&mut self) {
        let listed: BTreeSet<u64> = self.dbg.as_ref().unwrap().breakpoints_snapshot().iter().map(|b| self.abs(b.addr)).collect();
        let maps = ns::maps(self.pid);
        for a in self.armed.keys().copied().collect::<Vec<_>>() {
            if !listed.contains(&a) {
                if self.tr.in_text(a) && !self.lt.has_rows(a - self.tr.base) {
                    self.armed.remove(&a);
                    bump(&mut self.stats, "c01.prestart_breakpoint_without_place_dropped");
                } else if !maps.is_empty() && !maps.iter().any(|m| m.start <= a && a < m.end) {
                    // a line-table row of dead-stripped code (address 0.. of a non-PIE
                    // executable): nothing is mapped there, no breakpoint can exist
                    self.armed.remove(&a);
                    bump(&mut self.stats, "c01.prestart_breakpoint_at_unmapped_address_dropped");
                } else {
                    self.violate("C01", "breakpoint_lost_at_start", format!("breakpoint {} requested before start is not listed after start", self.off(a)));
                    self.armed.remove(&a);
                }
            }
        }
    }

    /// C01: continue/start stop at exactly the next armed position of the reference execution.
    fn check_continue(&mut self, op: &Op, before: Where, outcome: &Outcome, evs: &[Ev], obs: Option<(u64, u64, u64)>) {
        if matches!(op, Op::Start) && matches!(before, Where::NotStarted) && !matches!(outcome, Outcome::Err(_)) && self.pos != Where::Exited {
            self.sync_armed_after_start();
        } else if matches!(op, Op::Start) && matches!(before, Where::NotStarted) && !matches!(outcome, Outcome::Err(_)) {
            // the program ran to its end: the listing can no longer be consulted, the rule can
            // (an address requested before start that has no line-table place is dropped at start)
            for a in self.armed.keys().copied().collect::<Vec<_>>() {
                if self.tr.in_text(a) && !self.lt.has_rows(a - self.tr.base) {
                    self.armed.remove(&a);
                    bump(&mut self.stats, "c01.prestart_breakpoint_without_place_dropped");
                }
            }
        }
        if let (Some(sig), Where::At(i)) = (self.pending_sig, before) {
            // the pending signal is delivered before the program executes anything
            self.pending_sig = None;
            bump(&mut self.stats, "c10.resume_with_pending_signal_checked");
            match outcome {
                Outcome::Stop(StopKind::Signal(s)) if *s == sig => {
                    if self.pos != Where::At(i) {
                        self.violate("C10", "signal_stop_position", format!("signal {sig} was pending at the prompt; continue reported it but the program moved from ref index {i} to {:?}", self.pos));
                    }
                    if evs.iter().filter(|e| matches!(e, Ev::Signal(x) if *x == sig)).count() != 1 {
                        self.violate("C10", "signal_hook_count", format!("on_signal calls for one reported signal stop: {}", evs.iter().filter(|e| matches!(e, Ev::Signal(_))).count()));
                    }
                }
                other => {
                    let d = format!("signal {sig} was pending when `continue` resumed the program at ref index {i}; the command ended with {other:?} at {:?} without reporting it", self.pos);
                    self.violate("C10", "pending_signal_not_reported", d);
                }
            }
            return;
        }
        let b = self.armed_set();
        let after = match (before, op) {
            (Where::NotStarted, Op::Start) => None,
            (Where::NotStarted, _) | (Where::Exited, _) | (_, Op::Start) => {
                // must be refused
                if !matches!(outcome, Outcome::Err(_)) {
                    self.violate("C11", "wrong_state_accepted", format!("{op:?} in state {before:?} returned {outcome:?}"));
                }
                bump(&mut self.stats, "refused_in_wrong_state");
                return;
            }
            (Where::At(i), _) => Some(i),
            (Where::Foreign { lb, .. }, _) => Some(lb),
        };
        if let Outcome::Stop(StopKind::Watchpoint(a)) = outcome {
            if self.companions.contains_key(a) {
                // end of scope of a watched local: the stop belongs to C14 (check_scoped_watches)
                bump(&mut self.stats, "c01.continue_ended_at_companion");
                return;
            }
        }
        let expected = self.tr.next_in(after, &b);
        if let (Where::Foreign { tick, .. }, Some(j)) = (before, expected) {
            // positions sharing the TICK value read in foreign code may or may not have been
            // executed already: the model cannot tell, so nothing is demanded
            if self.tr.pos[j].tick <= tick {
                bump(&mut self.stats, "c01.skipped_ambiguous_after_foreign");
                return;
            }
        }
        bump(&mut self.stats, "c01.continue_checked");
        match expected {
            Some(j) => {
                bump(&mut self.stats, "c01.expected_bp_stop");
                let p = self.tr.pos[j];
                match outcome {
                    Outcome::Stop(StopKind::Breakpoint(pc)) => {
                        if *pc != p.rip {
                            self.violate("C01", "stop_pc", format!("reported pc {} expected {} (ref index {j})", self.off(*pc), self.off(p.rip)));
                        }
                        if self.pos != Where::At(j) {
                            let d = format!("real position {:?} (rip,rsp,tick={:x?}) != expected ref index {j} ({},rsp {:x},tick {})", self.pos, obs, self.off(p.rip), p.rsp, p.tick);
                            self.violate("C01", "stop_position", d);
                        }
                        let ecx_pc = self.dbg.as_ref().unwrap().ecx().location().pc.as_u64();
                        if ecx_pc != p.rip {
                            self.violate("C01", "ecx_pc", format!("ecx pc {} expected {}", self.off(ecx_pc), self.off(p.rip)));
                        }
                        let bps: Vec<&Ev> = evs.iter().filter(|e| matches!(e, Ev::Breakpoint { .. })).collect();
                        if bps.len() != 1 {
                            self.violate("C01", "hook_count", format!("{} on_breakpoint calls for one stop", bps.len()));
                        } else if let Ev::Breakpoint { pc, num, .. } = bps[0] {
                            if *pc != p.rip {
                                self.violate("C01", "hook_pc", format!("on_breakpoint pc {} expected {}", self.off(*pc), self.off(p.rip)));
                            }
                            if self.armed.get(&p.rip) != Some(num) && !self.ambiguous_number.contains(&p.rip) {
                                self.violate("C01", "hook_number", format!("on_breakpoint number {num} expected {:?}", self.armed.get(&p.rip)));
                            }
                        }
                        if j > 0 && after.map(|a| self.tr.pos[a + 1..j].iter().any(|q| q.rip == p.rip)).unwrap_or(false) {
                            // cannot happen by construction of `expected`
                        }
                        if after.is_some() && self.tr.pos[..j].iter().any(|q| q.rip == p.rip) {
                            bump(&mut self.stats, "c01.rearrival_hit");
                        }
                    }
                    other => {
                        let d = format!("expected Breakpoint at ref index {j} ({}), got {other:?}; real position {:?}", self.off(p.rip), self.pos);
                        self.violate("C01", "missed_stop", d);
                    }
                }
            }
            None => {
                bump(&mut self.stats, "c01.expected_exit");
                match outcome {
                    Outcome::Stop(StopKind::Exit(code)) => {
                        self.exit_code = Some(*code);
                        if *code != self.tr.exit_code {
                            self.violate("C11", "exit_code", format!("reported exit code {code}, reference {}", self.tr.exit_code));
                        }
                        let n = evs.iter().filter(|e| matches!(e, Ev::Exit(_))).count();
                        if n != 1 {
                            self.violate("C01", "exit_hook_count", format!("{n} on_exit calls"));
                        }
                    }
                    other => {
                        let d = format!("no armed position remains, expected exit({}), got {other:?} at {:?}", self.tr.exit_code, self.pos);
                        self.violate("C01", "spurious_stop", d);
                    }
                }
            }
        }
    }

    fn lines_at(&self, rip: u64) -> BTreeSet<(u32, u64)> {
        self.lt.lines_for(rip - self.tr.base)
    }
    fn is_stmt(&self, rip: u64) -> bool {
        self.lt.is_stmt_addr(rip - self.tr.base)
    }
    /// every is_stmt row at this exact address has a line outside `l`
    fn stmt_of_other_line(&self, rip: u64, l: &BTreeSet<(u32, u64)>) -> bool {
        let rows = self.lt.rows_at(rip - self.tr.base);
        let st: Vec<_> = rows.iter().filter(|r| r.is_stmt).collect();
        // rows of inlined callees and line-0 rows are not statement boundaries of the
        // activation's own body
        !st.is_empty() && st.iter().all(|r| r.line != 0 && !l.contains(&(r.file, r.line))) && !self.lt.in_inlined(rip - self.tr.base)
    }

    /// Does `missed` lie after the first epilogue_begin row of the function containing `from`?
    /// (BugStalker's step-over drops every statement row beyond that row, step.rs:322-330.)
    fn after_first_epilogue(&self, from: u64, missed: u64) -> bool {
        let Some((lo, sz)) = self.fn_syms.iter().find(|(a, s)| from >= *a && from < *a + *s).copied() else { return false };
        let (lo_g, hi_g) = (lo - self.tr.base, lo + sz - self.tr.base);
        let eb = self.lt.seqs.iter().flat_map(|s| s.rows.iter()).filter(|r| r.epilogue_begin && r.addr >= lo_g && r.addr < hi_g).map(|r| r.addr).min();
        match eb {
            Some(eb) => missed - self.tr.base > eb && missed >= lo && missed < lo + sz,
            None => false,
        }
    }

    /// C03: step commands land where their definition says.
    fn check_step(&mut self, op: &Op, before: Where, outcome: &Outcome, evs: &[Ev], _obs: Option<(u64, u64, u64)>) {
        let i = match before {
            Where::At(i) => i,
            Where::NotStarted | Where::Exited => {
                if !matches!(outcome, Outcome::Err(_)) {
                    self.violate("C11", "wrong_state_accepted", format!("{op:?} in state {before:?} returned {outcome:?}"));
                }
                bump(&mut self.stats, "refused_in_wrong_state");
                return;
            }
            Where::Foreign { .. } => {
                bump(&mut self.stats, "c03.skipped_from_foreign");
                return;
            }
        };
        if evs.iter().any(|e| matches!(e, Ev::Watchpoint { .. })) {
            bump(&mut self.stats, "c03.cut_short_by_end_of_scope");
            return;
        }
        if self.pending_sig.is_none() && evs.iter().any(|e| matches!(e, Ev::Signal(_))) {
            // cut short by a signal and says so (C10 judges whether that signal should exist)
            bump(&mut self.stats, "c03.cut_short_by_signal");
            return;
        }
        if let Some(sig) = self.pending_sig.take() {
            // "a step cut short by a ... signal ... says so": the signal is delivered before the
            // first instruction of the step
            bump(&mut self.stats, "c03.step_with_pending_signal_checked");
            let said = evs.iter().any(|e| matches!(e, Ev::Signal(x) if *x == sig));
            if !said {
                self.violate("C03", "step_cut_short_by_signal_not_reported", format!("{op:?} at ref index {i} with signal {sig} pending ended at {:?} with events {evs:?} and never reported the signal", self.pos));
            } else if self.pos != Where::At(i) {
                self.violate("C03", "signal_cut_step_moved", format!("{op:?} reported signal {sig} but the program moved from ref index {i} to {:?}", self.pos));
            }
            return;
        }
        let tr = self.tr;
        let b = self.armed_set();
        let n = tr.pos.len();
        let act_i = tr.pos[i].act;
        let ret_i = tr.acts[act_i as usize].ret_idx.unwrap_or(n);
        let kind = format!("{op:?}").to_lowercase();
        // step/next/finish are judged when issued from an activation of a function of the
        // generated source file (rows of macro-generated library functions are attributed to
        // other files than their DW_AT_decl_file; that attribution is C04's subject)
        let user_fn = self.lt.rows_for(tr.acts[act_i as usize].entry_rip - tr.base).iter().any(|r| r.file == self.file_id);
        if !user_fn && !matches!(op, Op::Stepi) {
            bump(&mut self.stats, "c03.skipped_from_library_function");
            return;
        }
        bump(&mut self.stats, &format!("c03.{kind}_checked"));
        // the command ended with the process gone
        if self.pos == Where::Exited {
            // legitimate only if no admissible stop existed before the exit
            let says_exit = matches!(outcome, Outcome::Err(e) if e.contains("exit")) || evs.iter().any(|e| matches!(e, Ev::Exit(_)));
            if !says_exit {
                self.violate("C03", "exit_not_reported", format!("{kind}: process exited but the command reported {outcome:?}"));
            }
            // must not have run through an armed breakpoint on the way out
            if tr.next_in(Some(i), &b).is_some() {
                bump(&mut self.stats, "c03.observed_ran_through_user_breakpoint");
            }
            bump(&mut self.stats, "c03.ended_in_exit");
            return;
        }
        let j = match self.pos {
            Where::At(j) => j,
            Where::Foreign { .. } => {
                // legitimate landings in foreign code: stepi over a call/ret into foreign code,
                // finish/next/step out of the outermost traced activation
                let ok = match op {
                    Op::Stepi => tr.foreign_after(i),
                    _ => true,
                };
                if !ok {
                    self.violate("C03", "lost_position", format!("{kind} from ref index {i}: landed outside traced code unexpectedly"));
                } else {
                    bump(&mut self.stats, "c03.landed_foreign");
                }
                return;
            }
            _ => return,
        };
        // cut short by a breakpoint: nothing armed may lie strictly between
        if let Some(k) = tr.next_in(Some(i), &b) {
            if k < j && !matches!(op, Op::Stepi) {
                // BugStalker deliberately absorbs every non-temporary breakpoint while the
                // temporary breakpoints of next/finish exist; C03 only demands that a step
                // which *is* cut short says so.  Recorded, not judged.
                bump(&mut self.stats, "c03.observed_ran_through_user_breakpoint");
            }
        }
        let at_bp = b.contains(&tr.pos[j].rip);
        let reported_bp = evs.iter().any(|e| matches!(e, Ev::Breakpoint { .. }));
        // reported place = place of the real pc
        for e in evs {
            if let Ev::Step { pc, line } = e {
                if *pc != tr.pos[j].rip {
                    self.violate("C03", "reported_pc", format!("{kind}: on_step pc {} but real pc {}", self.off(*pc), self.off(tr.pos[j].rip)));
                }
                if let Some((f, l)) = line {
                    let real: BTreeSet<(String, u64)> = self.lt.rows_for(tr.pos[j].rip - tr.base).iter().map(|r| (self.lt.files.get(r.file as usize).cloned().unwrap_or_default(), r.line)).collect();
                    if !real.is_empty() && !real.iter().any(|(rf, rl)| rl == l && (rf.ends_with(f.as_str()) || f.ends_with(rf.as_str()))) {
                        self.violate("C03", "reported_place", format!("{kind}: on_step place {f}:{l} but line table says {real:?} for {}", self.off(tr.pos[j].rip)));
                    }
                }
            }
        }
        let ecx_pc = self.dbg.as_ref().unwrap().ecx().location().pc.as_u64();
        if ecx_pc != tr.pos[j].rip {
            self.violate("C03", "ecx_pc", format!("{kind}: ecx pc {} but real pc {}", self.off(ecx_pc), self.off(tr.pos[j].rip)));
        }
        match op {
            Op::Stepi => {
                if j != i + 1 {
                    self.violate("C03", "stepi", format!("stepi from ref index {i} landed at {j}, expected {}", i + 1));
                }
            }
            Op::Finish => {
                if matches!(outcome, Outcome::Err(_)) {
                    bump(&mut self.stats, "c03.finish_err");
                    if j != i {
                        self.violate("C03", "failed_step_moved", format!("finish failed ({outcome:?}) but the program moved {i} -> {j}"));
                    }
                    return;
                }
                if ret_i >= n {
                    return;
                }
                if j != ret_i {
                    if at_bp && j < ret_i && reported_bp {
                        bump(&mut self.stats, "c03.cut_short_by_bp");
                    } else {
                        let d = format!("finish from ref index {i} (act {act_i}, depth {}) landed at {j} (act {}, depth {}), expected {ret_i} (act {})", tr.depth(i), tr.pos[j].act, tr.depth(j), tr.pos[ret_i].act);
                        // known mechanism: the temporary breakpoint at the return address is
                        // first reached by a deeper activation of the same function
                        let inv = if j < ret_i && tr.pos[j].rip == tr.acts[act_i as usize].ret && tr.pos[j].act != tr.pos[ret_i].act { "finish_recursion_wrong_activation" } else { "finish" };
                        self.violate("C03", inv, d);
                    }
                } else {
                    bump(&mut self.stats, "c03.finish_exact");
                }
            }
            Op::Step | Op::Next => {
                if matches!(outcome, Outcome::Err(_)) {
                    bump(&mut self.stats, "c03.step_err");
                    return;
                }
                let l = self.lines_at(tr.pos[i].rip);
                // (a) first statement boundary of another line inside the activation
                let mut jstar: Option<usize> = None;
                let mut landing: Option<usize> = None;
                for k in i + 1..ret_i.min(n) {
                    if tr.pos[k].act == act_i && self.stmt_of_other_line(tr.pos[k].rip, &l) {
                        jstar = Some(k);
                        break;
                    }
                }
                if jstar.is_none() && ret_i < n {
                    // (b) the function returns first
                    let e = ret_i;
                    landing = Some(e);
                    if self.is_stmt(tr.pos[e].rip) {
                        jstar = Some(e);
                    } else {
                        let act_e = tr.pos[e].act;
                        let ret_e = tr.acts[act_e as usize].ret_idx.unwrap_or(n);
                        let le = self.lines_at(tr.pos[e].rip);
                        let mut found = None;
                        for k in e + 1..ret_e.min(n) {
                            if tr.pos[k].act == act_e && self.stmt_of_other_line(tr.pos[k].rip, &le) {
                                found = Some(k);
                                break;
                            }
                        }
                        jstar = found.or(if ret_e < n { Some(ret_e) } else { None });
                    }
                }
                if j <= i {
                    self.violate("C03", "no_progress", format!("{kind} from ref index {i} did not move forward (landed {j})"));
                    return;
                }
                let cut = at_bp && reported_bp;
                // a line may own several statement rows (bounds check, then the store): stopping at
                // a later row of the *same* line, with no boundary of another line in between, skips
                // no line
                let same_line_later_row = |s: &Self, js: usize, j: usize| -> bool {
                    let lj = s.lines_at(tr.pos[js].rip);
                    (js + 1..=j).all(|k| tr.pos[k].act != tr.pos[js].act || !s.is_stmt(tr.pos[k].rip) || s.lines_at(tr.pos[k].rip) == lj || s.lt.in_inlined(tr.pos[k].rip - tr.base)) && tr.pos[j].act == tr.pos[js].act
                };
                if let Some(js) = jstar {
                    if j > js && same_line_later_row(self, js, j) {
                        bump(&mut self.stats, "c03.stopped_at_later_row_of_the_admissible_line");
                    } else if j > js {
                        let d = format!("{kind} from ref index {i} ({} lines {:?}) landed at {j} ({} lines {:?}), later than the latest admissible stop {js} ({} lines {:?})", self.off(tr.pos[i].rip), l, self.off(tr.pos[j].rip), self.lines_at(tr.pos[j].rip), self.off(tr.pos[js].rip), self.lines_at(tr.pos[js].rip));
                        let at_pe = self.lt.rows_at(tr.pos[js].rip - tr.base).iter().any(|r| r.prologue_end);
                        let inv = if matches!(op, Op::Next) && self.after_first_epilogue(tr.pos[i].rip, tr.pos[js].rip) {
                            "next_skips_rows_after_first_epilogue"
                        } else if at_pe && tr.pos[js].act == act_i {
                            // known mechanism: started inside the prologue, the statement at the
                            // prologue_end row (first statement of the body) is run through
                            "step_from_prologue_skips_statement_at_prologue_end"
                        } else {
                            "skipped_line"
                        };
                        self.violate("C03", inv, d);
                        return;
                    }
                }
                if !cut && !self.is_stmt(tr.pos[j].rip) && Some(j) != landing {
                    // stops in code without line rows are outside the statement
                    if self.lt.has_rows(tr.pos[j].rip - tr.base) {
                        self.violate("C03", "not_stmt_boundary", format!("{kind} from {i} stopped at {j} ({}), not a statement boundary", self.off(tr.pos[j].rip)));
                    }
                }
                if matches!(op, Op::Next) && !cut && !tr.stack_at(i).contains(&tr.pos[j].act) {
                    let same_fn = tr.fn_of_act(tr.pos[j].act) == tr.fn_of_act(act_i);
                    // known mechanism: after the function returned into the middle of a
                    // statement of the caller, step_over_any finishes with step_in, which
                    // enters the next call of that statement
                    let sibling = ret_i < n && j > ret_i && tr.acts[tr.pos[j].act as usize].entry_idx > ret_i && tr.is_self_or_caller(tr.pos[ret_i].act, j);
                    let inv = if same_fn { "next_recursion_deeper_activation" } else if sibling { "next_after_return_enters_sibling_callee" } else { "next_in_callee" };
                    self.violate("C03", inv, format!("next from ref index {i} (act {act_i}) stopped inside a callee at {j} (act {}, {})", tr.pos[j].act, self.off(tr.pos[j].rip)));
                }
                if matches!(op, Op::Step) && !cut {
                    // first call made from act_i before j that enters code with line rows
                    let lim = jstar.unwrap_or(n - 1).min(j);
                    for k in i + 1..=lim {
                        let a = tr.pos[k].act;
                        let act = &tr.acts[a as usize];
                        if act.entry_idx == k && act.parent == Some(act_i) && self.lt.has_rows(act.entry_rip - tr.base) {
                            // callee bound: its first statement boundary at/after prologue_end
                            let end = act.ret_idx.unwrap_or(n).min(n);
                            let mut cstar = None;
                            let has_pe = (k..end).any(|m| tr.pos[m].act == a && self.lt.rows_at(tr.pos[m].rip - tr.base).iter().any(|r| r.prologue_end));
                            let mut seen_pe = !has_pe;
                            for m in k..end {
                                if tr.pos[m].act != a {
                                    continue;
                                }
                                let rows = self.lt.rows_at(tr.pos[m].rip - tr.base);
                                if rows.iter().any(|r| r.prologue_end) {
                                    seen_pe = true;
                                }
                                if seen_pe && rows.iter().any(|r| r.is_stmt) {
                                    cstar = Some(m);
                                    break;
                                }
                            }
                            if let Some(c) = cstar {
                                bump(&mut self.stats, "c03.step_into_callee_bound");
                                if j > c {
                                    // known mechanism: the callee's first row shares its address
                                    // with the end_sequence row of the preceding function
                                    let g = tr.pos[c].rip - tr.base;
                                    let inv = if self.lt.seqs.iter().any(|s| s.end == g) { "step_skips_callee_row_at_end_sequence_address" } else { "step_skipped_callee" };
                                    self.violate("C03", inv, format!("step from ref index {i} landed at {j}, skipping the first line of the callee entered at {k} (bound {c}, {})", self.off(tr.pos[c].rip)));
                                }
                            }
                            break;
                        }
                    }
                }
                bump(&mut self.stats, "c03.step_admissible");
            }
            _ => {}
        }
    }

    /// C11: restart keeps every user breakpoint (number and place) and the new process stops
    /// where the reference execution says.
    fn check_restart(&mut self, outcome: &Outcome, pre: &Pre) {
        if matches!(outcome, Outcome::Err(_)) {
            self.violate("C11", "restart_failed", format!("restart returned {outcome:?}"));
            return;
        }
        bump(&mut self.stats, "c11.restart_checked");
        self.pending_sig = None;
        for num in self.scoped.keys().copied().chain(self.zombies.iter().copied()).collect::<Vec<_>>() {
            // watchpoints on locals do not survive the process
            self.forget_watch(num);
        }
        self.tick_delta = 0;
        self.calls_made = 0;
        // global watchpoints survive, the model keeps them; nothing else to reset
        if !pre.snapshot.is_empty() || matches!(self.pos, Where::At(_)) {
            let now: Vec<(u32, u64)> = self.dbg.as_ref().unwrap().breakpoints_snapshot().iter().map(|b| (b.number, self.abs(b.addr))).collect();
            let a: BTreeSet<(u32, u64)> = pre.snapshot.iter().copied().collect();
            let b: BTreeSet<(u32, u64)> = now.iter().copied().collect();
            if !pre.snapshot.is_empty() && a != b {
                self.violate("C11", "restart_breakpoints_changed", format!("breakpoints before restart {a:x?}, after {b:x?}"));
            }
        }
        let bset = self.armed_set();
        let expected = self.tr.next_in(None, &bset);
        match (expected, self.pos) {
            (Some(j), Where::At(k)) if j == k => {
                bump(&mut self.stats, "c11.restart_stop_matches_reference");
            }
            (None, Where::Exited) => {}
            (e, p) => {
                self.violate("C11", "restart_stop", format!("after restart expected ref index {e:?}, real position {p:?}"));
            }
        }
    }

    /// C16: an injected call runs once with exactly its arguments and leaves no trace.
    fn check_call(&mut self, op: &Op, before: Where, outcome: &Outcome, pre: &Pre) {
        if matches!(before, Where::NotStarted | Where::Exited) {
            if !matches!(outcome, Outcome::Err(_)) {
                self.violate("C11", "wrong_state_accepted", format!("{op:?} in state {before:?} returned {outcome:?}"));
            }
            return;
        }
        bump(&mut self.stats, "c16.call_checked");
        let calln_after = self.data.get("CALLN").and_then(|a| ns::read_u64(self.pid, *a));
        let made = match (pre.calln, calln_after) {
            (Some(a), Some(b)) => b.wrapping_sub(a),
            _ => 0,
        };
        if std::path::Path::new("/verif/scratch/DEBUG").exists() {
            eprintln!("call {op:?}: calln {:?} -> {:?}, tick raw {:?}, regs before rip {:x?} after {:x?}", pre.calln, calln_after, ns::read_u64(self.pid, self.tr.tick_addr), pre.regs.map(|r| (r.rip, r.rsp)), raw::getregs(self.pid).ok().map(|r| (r.rip, r.rsp)));
        }
        self.tick_delta += made;
        self.calls_made += made;
        // the program is where it was
        let from = match before {
            Where::At(i) => i,
            Where::Foreign { lb, .. } => lb,
            _ => 0,
        };
        if let Where::At(i) = before {
            let (w, t) = self.observe(from);
            if w != Where::At(i) {
                self.violate("C16", "position_changed", format!("after {op:?} the program is at {w:?} {t:x?}, was at ref index {i}"));
            }
            self.pos = before;
        }
        if let (Some(a), Ok(b)) = (pre.regs, raw::getregs(self.pid)) {
            let ab: [u8; std::mem::size_of::<libc::user_regs_struct>()] = unsafe { std::mem::transmute(a) };
            let bb: [u8; std::mem::size_of::<libc::user_regs_struct>()] = unsafe { std::mem::transmute(b) };
            if ab != bb {
                let names = ["r15", "r14", "r13", "r12", "rbp", "rbx", "r11", "r10", "r9", "r8", "rax", "rcx", "rdx", "rsi", "rdi", "orig_rax", "rip", "cs", "eflags", "rsp", "ss", "fs_base", "gs_base", "ds", "es", "fs", "gs"];
                let diff: Vec<String> = (0..27).filter(|k| ab[k * 8..k * 8 + 8] != bb[k * 8..k * 8 + 8]).map(|k| names[k].to_string()).collect();
                // orig_rax is bookkeeping of the kernel's syscall restart logic, not program state
                if diff.iter().any(|d| d != "orig_rax") {
                    self.violate("C16", "registers_not_restored", format!("after {op:?} registers differ: {diff:?}"));
                }
            }
        }
        let maps_after = std::fs::read_to_string(format!("/proc/{}/maps", self.pid)).unwrap_or_default();
        if maps_after != pre.maps {
            self.violate("C16", "maps_changed", format!("after {op:?} /proc/maps changed"));
        }
        match op {
            Op::Call(f, args) => {
                if let Outcome::Err(e) = outcome {
                    self.violate("C16", "call_refused", format!("{op:?} failed: {e}"));
                    return;
                }
                bump(&mut self.stats, "c16.call_succeeded");
                if made != 1 {
                    self.violate("C16", "call_count", format!("{op:?}: callee ran {made} times"));
                    return;
                }
                let n = pre.calln.unwrap_or(0);
                if n < 16 {
                    let base = self.data["CALLLOG"] + n * 64;
                    let row: Vec<u64> = (0..7).map(|k| ns::read_u64(self.pid, base + 8 * k).unwrap_or(u64::MAX)).collect();
                    let a = |k: usize| args.get(k).copied().unwrap_or(0);
                    let exp: Vec<u64> = match f.as_str() {
                        "probe0" => vec![100, 0, 0, 0, 0, 0, 0],
                        "probe2" => vec![102, a(0) as u64, a(1) as u64, 0, 0, 0, 0],
                        "probe3" => vec![103, a(0) as u64, a(1) as u32 as u64, a(2) as u8 as u64, 0, 0, 0],
                        _ => vec![106, a(0) as u64, a(1) as i32 as i64 as u64, a(2) as u16 as u64, a(3) as i8 as i64 as u64, (a(4) != 0) as u64, a(5) as u64],
                    };
                    if row != exp {
                        if std::path::Path::new("/verif/scratch/DEBUG").exists() {
                            for q in 0..6u64 {
                                let r: Vec<u64> = (0..7).map(|k| ns::read_u64(self.pid, self.data["CALLLOG"] + q * 64 + 8 * k).unwrap_or(u64::MAX)).collect();
                                eprintln!("row {q}: {r:x?}  (n={n} after={calln_after:?})");
                            }
                        }
                        self.violate("C16", "call_arguments", format!("{op:?}: callee logged {row:x?}, expected {exp:x?}"));
                    }
                }
            }
            _ => {
                bump(&mut self.stats, "c16.bad_call_checked");
                if !matches!(outcome, Outcome::Err(_)) {
                    self.violate("C16", "bad_call_accepted", format!("{op:?} returned {outcome:?}"));
                }
                if made != 0 {
                    self.violate("C16", "bad_call_ran", format!("{op:?}: a callee ran {made} times"));
                }
            }
        }
    }

    /// C14: refusal rules of watchpoint creation.
    fn check_watch_add(&mut self, a: u64, sz: u8, _rw: bool, outcome: &Outcome, pre: &Pre) {
        if matches!(self.pos, Where::NotStarted | Where::Exited) {
            return;
        }
        bump(&mut self.stats, "c14.add_checked");
        // the op already inserted on success: compute the model's verdict from the rest
        let others: Vec<(u64, u8, bool)> = match outcome {
            Outcome::Done => {
                let newest = self.watches.keys().max().copied();
                self.watches.iter().filter(|(n, _)| Some(**n) != newest).map(|(_, w)| *w).collect()
            }
            _ => self.watches.values().copied().collect(),
        };
        let dup = others.iter().any(|w| w.0 == a);
        let full = others.len() >= 4;
        let misaligned = a % sz as u64 != 0;
        let should_fail = dup || full || misaligned;
        match (outcome, should_fail) {
            (Outcome::Done, true) => {
                self.violate("C14", "add_accepted", format!("watchpoint at {} size {sz} accepted although dup={dup} full={full} misaligned={misaligned}", self.sym_off(a)));
            }
            (Outcome::Err(e), false) => {
                let now = self.read_dr();
                self.violate("C14", "add_refused", format!("watchpoint at {} size {sz} refused: {e}; debug registers before {:x?} after {:x?}", self.sym_off(a), pre.dr, now));
            }
            (Outcome::Err(_), true) => {
                bump(&mut self.stats, if full { "c14.fifth_refused" } else if dup { "c14.duplicate_refused" } else { "c14.misaligned_refused" });
                // refused without side effects
                if let (Some(b), Some(n)) = (pre.dr, self.read_dr()) {
                    // what counts: the control register and the address of every enabled slot
                    // (a stale address in a disabled slot encodes nothing)
                    let en = |d: &[u64; 8]| -> Vec<(usize, u64)> { (0..4).filter(|k| d[7] >> (2 * k) & 3 != 0).map(|k| (k, d[k])).collect() };
                    if b[7] != n[7] || en(&b) != en(&n) {
                        self.violate("C14", "refused_add_side_effect", format!("debug registers changed by a refused add: {b:x?} -> {n:x?}"));
                    }
                }
            }
            _ => {}
        }
    }

    /// C14: the debug registers of the thread encode exactly the active watchpoints.
    fn check_debug_registers(&mut self) {
        let Some(dr) = self.read_dr() else { return };
        bump(&mut self.stats, "c14.dr_image_checked");
        if !self.watches.is_empty() {
            bump(&mut self.stats, "c14.dr_image_checked_nonempty");
        }
        // debugger's own list = model
        let list: BTreeSet<(u32, u64)> = self.dbg.as_ref().unwrap().watchpoint_list().iter().map(|w| (w.number, w.address.as_u64())).collect();
        let model: BTreeSet<(u32, u64)> = self.watches.iter().map(|(n, w)| (*n, w.0)).collect();
        if list != model {
            self.violate("C14", "list_mismatch", format!("watchpoint_list {list:x?} != model {model:x?}"));
            return;
        }
        let dr7 = dr[7];
        let mut enabled: Vec<(u64, u8, bool)> = vec![];
        for k in 0..4 {
            let l = dr7 >> (2 * k) & 1;
            let g = dr7 >> (2 * k + 1) & 1;
            if l == 0 && g == 0 {
                continue;
            }
            let rw = dr7 >> (16 + 4 * k) & 3;
            let len = dr7 >> (18 + 4 * k) & 3;
            let sz = match len {
                0 => 1,
                1 => 2,
                3 => 4,
                _ => 8,
            };
            if rw != 1 && rw != 3 {
                self.violate("C14", "dr7_condition", format!("slot {k} enabled with RW={rw:#b} (DR7 {dr7:#x})"));
            }
            enabled.push((dr[k as usize], sz, rw == 3));
        }
        let mut e = enabled.clone();
        e.sort();
        let mut m: Vec<(u64, u8, bool)> = self.watches.values().copied().collect();
        m.sort();
        if e != m {
            self.violate("C14", "dr_image", format!("debug registers encode {e:x?} (DR7 {dr7:#x}, DR0-3 {:x?}) but active watchpoints are {m:x?}", &dr[..4]));
        }
    }

    /// C02/C11: detach leaves no patch, no hardware breakpoint, and a process that completes
    /// as it would have natively.
    fn check_detach(&mut self, outcome: &Outcome) {
        if matches!(self.pos, Where::NotStarted) {
            return;
        }
        bump(&mut self.stats, "c11.detach_checked");
        if let Outcome::Err(e) = outcome {
            self.violate("C11", "detach_failed", format!("detach: {e}"));
        }
        match self.detach_ledger.take() {
            Some(rep) if rep.is_empty() => bump(&mut self.stats, "c02.detach_ledger_clean"),
            Some(rep) => self.violate("C02", "patch_left_at_detach", rep.join("; ")),
            None => {
                if self.pos != Where::Exited {
                    self.violate("C11", "no_detach_syscall", "detach returned without PTRACE_DETACH of the process".into());
                }
            }
        }
        if self.pos == Where::Exited {
            return;
        }
        // the released process must run to completion with the native result
        let mut st = 0i32;
        let t0 = std::time::Instant::now();
        let mut done = false;
        while t0.elapsed().as_secs() < 10 {
            let r = raw::wait4(self.pid, &mut st, libc::WNOHANG | libc::__WALL);
            if r == self.pid && (libc::WIFEXITED(st) || libc::WIFSIGNALED(st)) {
                done = true;
                break;
            }
            if r < 0 {
                break;
            }
            std::thread::yield_now();
        }
        if !done {
            let state = ns::task_state(self.pid, self.pid);
            self.violate("C11", "detached_process_stuck", format!("detached process did not finish (state {state})"));
            unsafe { libc::kill(self.pid, libc::SIGKILL) };
        } else if self.restarts == 0 && self.calls_made == 0 {
            let code = if libc::WIFEXITED(st) { libc::WEXITSTATUS(st) } else { -libc::WTERMSIG(st) };
            self.exit_code = Some(code);
            if code != self.tr.exit_code {
                self.violate("C02", "exit_status_differs", format!("detached process ended with {code}, native {}", self.tr.exit_code));
            }
        }
        self.pos = Where::Exited;
    }

    /// C02 (i): every file-backed executable mapping equals the file, except 0xCC at allowed
    /// addresses; every armed user breakpoint is really patched.
    fn check_ledger(&mut self) {
        let maps = ns::maps(self.pid);
        if maps.is_empty() {
            return;
        }
        bump(&mut self.stats, "c02.ledger_checked");
        let armed = self.armed_set();
        let mut diffs: Vec<(u64, u8, u8)> = vec![];
        let mut compared = 0u64;
        for m in maps.iter().filter(|m| m.perms.contains('x') && m.path.starts_with('/')) {
            if !self.file_text.contains_key(&m.path) {
                let d = std::fs::read(&m.path).unwrap_or_default();
                self.file_text.insert(m.path.clone(), d);
            }
            let file = &self.file_text[&m.path];
            let len = (m.end - m.start) as usize;
            let Some(mem) = ns::read_mem(self.pid, m.start, len) else { continue };
            let off = m.offset as usize;
            if off >= file.len() {
                continue;
            }
            let cmp = len.min(file.len() - off);
            compared += cmp as u64;
            if mem[..cmp] != file[off..off + cmp] {
                for k in 0..cmp {
                    if mem[k] != file[off + k] {
                        diffs.push((m.start + k as u64, file[off + k], mem[k]));
                        if diffs.len() > 64 {
                            break;
                        }
                    }
                }
            }
            // remember the dynamic linker's r_brk candidate
            if m.path.contains("ld-linux") && !self.allowed_internal.iter().any(|a| *a >= m.start && *a < m.end) {
                if let Some(a) = ld_debug_state(&m.path) {
                    self.allowed_internal.insert(m.start - m.offset + a);
                }
            }
        }
        add(&mut self.stats, "c02.ledger_bytes", compared);
        let mut patched: BTreeSet<u64> = BTreeSet::new();
        for (a, orig, now) in diffs {
            if now == 0xCC && (armed.contains(&a) || self.allowed_internal.contains(&a)) {
                patched.insert(a);
                continue;
            }
            let d = format!("text byte at {} is {now:#04x}, file has {orig:#04x}; not an armed user breakpoint or documented internal one", self.off(a));
            self.violate("C02", "stray_patch", d);
        }
        for a in &armed {
            // an armed breakpoint whose original byte is itself 0xCC cannot be told apart
            if !patched.contains(a) && self.tr.in_text(*a) {
                let orig = self.file_byte(*a);
                if orig != Some(0xCC) {
                    self.violate("C02", "armed_not_patched", format!("armed breakpoint {} is not patched in memory", self.off(*a)));
                }
            }
        }
    }

    fn file_byte(&self, abs: u64) -> Option<u8> {
        let f = self.file_text.get(&self.bin)?;
        // exe: file offset == vaddr for the text segment of these binaries only if p_offset == p_vaddr;
        // use the mapping table instead
        let maps = ns::maps(self.pid);
        let m = maps.iter().find(|m| m.path == self.bin && abs >= m.start && abs < m.end)?;
        f.get((abs - m.start + m.offset) as usize).copied()
    }

    /// C02 (ii): every POKE into text arms (orig -> CC) or restores (CC -> orig) one byte.
    fn check_pokes(&mut self, hist: &[SysRec]) {
        let maps = ns::maps(self.pid);
        let mut last_peek: BTreeMap<u64, u64> = BTreeMap::new();
        for r in hist {
            if let SysRec::Ptrace { req, addr, data, ret, errno, .. } = r {
                if (*req == seam::PTRACE_PEEKTEXT || *req == seam::PTRACE_PEEKDATA) && *errno == 0 {
                    last_peek.insert(*addr, *ret as u64);
                }
                if (*req == seam::PTRACE_POKETEXT || *req == seam::PTRACE_POKEDATA) && *ret == 0 {
                    let Some(m) = maps.iter().find(|m| *addr >= m.start && *addr < m.end) else { continue };
                    if !(m.perms.contains('x') && m.path.starts_with('/')) {
                        continue;
                    }
                    bump(&mut self.stats, "c02.text_pokes");
                    let low = (*data & 0xff) as u8;
                    let orig = self.file_text.get(&m.path).and_then(|f| f.get((*addr - m.start + m.offset) as usize).copied());
                    if low != 0xCC && Some(low) != orig {
                        self.violate("C02", "poke_wrong_byte", format!("POKE at {} writes low byte {low:#04x}: neither INT3 nor the original {orig:?}", self.off(*addr)));
                    }
                    if let Some(p) = last_peek.get(addr) {
                        if p & !0xff != *data & !0xff {
                            self.violate("C02", "poke_clobbers_neighbours", format!("POKE at {} changes bytes 1..7: peeked {p:#x}, poked {data:#x}", self.off(*addr)));
                        }
                    }
                    last_peek.insert(*addr, *data);
                }
            }
        }
    }

    /// C05: the backtrace is the shadow stack.
    fn check_backtrace(&mut self, j: usize) {
        let tr = self.tr;
        let rip = tr.pos[j].rip;
        if !self.fn_syms.iter().any(|(a, s)| rip >= *a && rip < *a + *s) {
            bump(&mut self.stats, "c05.skipped_no_symbol");
            return;
        }
        let stack = tr.stack_at(j);
        let mut expected: Vec<u64> = vec![rip];
        for a in &stack {
            // an activation entered by a tail jump took over its caller's frame: the two share one
            // return slot, and the physical stack has one frame for them
            if tr.acts[*a as usize].tail {
                continue;
            }
            expected.push(tr.acts[*a as usize].ret);
        }
        // intermediate frames must all be ours with unwind info (generated code)
        if expected[1..expected.len() - 1].iter().any(|ip| !self.fn_syms.iter().any(|(a, s)| *ip >= *a && *ip < *a + *s)) {
            bump(&mut self.stats, "c05.skipped_no_symbol");
            return;
        }
        let dbg = self.dbg.as_ref().unwrap();
        let bt = match dbg.backtrace(Pid::from_raw(self.pid)) {
            Ok(bt) => bt,
            Err(e) => {
                let d = format!("backtrace failed at ref index {j}: {e}");
                self.violate("C05", "backtrace_error", d);
                return;
            }
        };
        bump(&mut self.stats, "c05.backtrace_checked");
        add(&mut self.stats, "c05.frames_checked", expected.len() as u64);
        let depth = stack.len() as u64;
        let e = self.stats.entry("c05.max_depth".into()).or_default();
        *e = (*e).max(depth);
        let got: Vec<u64> = bt.iter().map(|f| f.ip.as_u64()).collect();
        let mut recursion = false;
        {
            let mut seen = BTreeSet::new();
            for x in &expected[1..] {
                if !seen.insert(*x) {
                    recursion = true;
                }
            }
        }
        if recursion {
            bump(&mut self.stats, "c05.recursive_stack");
        }
        if got.len() < expected.len() || got[..expected.len()] != expected[..] {
            let k = (0..expected.len()).find(|&k| got.get(k) != Some(&expected[k])).unwrap_or(0);
            let d = format!("at ref index {j}: frame {k} ip {:?} expected {} ({} frames reported, {} expected{})", got.get(k).map(|a| self.off(*a)), self.off(expected[k]), got.len(), expected.len(), if recursion { ", recursive stack" } else { "" });
            let inv = if recursion && got.len() < expected.len() && got[..] == expected[..got.len()] { "truncated_on_recursion" } else { "frame_mismatch" };
            self.violate("C05", inv, d);
            return;
        }
        // below the caller of `main` only the libc start-up frames exist (__libc_start_main,
        // _start): a longer tail means the unwinder walked past the outermost frame
        if got.len() > expected.len() + 3 {
            let tail: Vec<String> = got[expected.len()..].iter().take(6).map(|a| format!("{a:#x}")).collect();
            self.violate("C05", "frames_beyond_outermost", format!("at ref index {j}: {} frames reported, the real stack has {} down to the caller of main plus at most 3 start-up frames; tail {tail:?}", got.len(), expected.len()));
            return;
        }
        // CFA / return address of the selected (innermost) frame
        if self.sel_frame >= stack.len() {
            // a frame of libc below `main` is selected: no reference for it
            bump(&mut self.stats, "c05.selected_frame_outside_traced_code");
            return;
        }
        let sel = self.sel_frame;
        if sel > 0 {
            bump(&mut self.stats, "c05.frame_info_checked_on_selected_frame");
        }
        match dbg.frame_info() {
            Ok(fi) => {
                let a0 = &tr.acts[stack[sel] as usize];
                bump(&mut self.stats, "c05.frame_info_checked");
                if fi.num as usize != sel {
                    let d = format!("frame_info.num {} but frame {sel} is selected (ref index {j}{})", fi.num, if recursion { ", recursive stack" } else { "" });
                    self.violate("C05", if recursion { "frame_num_under_recursion" } else { "frame_num" }, d);
                }
                if fi.cfa.as_u64() != a0.slot + 8 {
                    let d = format!("frame_info.cfa {:#x} expected {:#x} at ref index {j} (selected frame {sel})", fi.cfa.as_u64(), a0.slot + 8);
                    self.violate("C05", if sel > 0 { "cfa_of_selected_frame" } else { "cfa" }, d);
                }
                if fi.return_addr.map(|a| a.as_u64()) != Some(a0.ret) {
                    let d = format!("frame_info.return_addr {:?} expected {} at ref index {j} (selected frame {sel})", fi.return_addr.map(|a| self.off(a.as_u64())), self.off(a0.ret));
                    self.violate("C05", if sel > 0 && recursion { "return_addr_of_selected_frame_under_recursion" } else { "return_addr" }, d);
                }
            }
            Err(_) => {
                bump(&mut self.stats, "c05.frame_info_err");
            }
        }
    }
}

/// World hook active during `detach`: at the first real PTRACE_DETACH (tracee still stopped)
/// the text of the process and its debug registers are read by the harness.
struct DetachProbe {
    pid: i32,
    done: bool,
    report: Option<Vec<String>>,
}
impl seam::World for DetachProbe {
    fn before_ptrace(&mut self, req: u32, _pid: i32, _addr: u64, _data: u64) {
        if req != seam::PTRACE_DETACH || self.done {
            return;
        }
        self.done = true;
        let mut rep = vec![];
        for m in ns::maps(self.pid).iter().filter(|m| m.perms.contains('x') && m.path.starts_with('/')) {
            let Ok(file) = std::fs::read(&m.path) else { continue };
            let len = (m.end - m.start) as usize;
            let Some(mem) = ns::read_mem(self.pid, m.start, len) else { continue };
            let off = m.offset as usize;
            if off >= file.len() {
                continue;
            }
            let cmp = len.min(file.len() - off);
            for k in 0..cmp {
                if mem[k] != file[off + k] {
                    rep.push(format!("text byte {:#x} ({}+{:#x}) is {:#04x}, file has {:#04x}", m.start + k as u64, m.path, off + k, mem[k], file[off + k]));
                    if rep.len() > 16 {
                        break;
                    }
                }
            }
        }
        for t in ns::tasks(self.pid) {
            if let Ok(dr7) = raw::peek(seam::PTRACE_PEEKUSER, t, DR_OFFSET + 8 * 7) {
                if dr7 & 0xff != 0 {
                    rep.push(format!("DR7 of task {t} is {dr7:#x} at detach"));
                }
            }
        }
        self.report = Some(rep);
    }
    fn as_any(&mut self) -> &mut dyn std::any::Any {
        self
    }
}

fn write_mem(pid: i32, addr: u64, data: &[u8]) -> bool {
    use std::os::unix::fs::FileExt;
    match std::fs::OpenOptions::new().write(true).open(format!("/proc/{pid}/mem")) {
        Ok(f) => f.write_all_at(data, addr).is_ok(),
        Err(_) => false,
    }
}

/// offsetof(struct user, u_debugreg)
pub const DR_OFFSET: u64 = 848;

fn ld_debug_state(path: &str) -> Option<u64> {
    use object::{Object, ObjectSymbol};
    let data = std::fs::read(path).ok()?;
    let obj = object::File::parse(&*data).ok()?;
    for s in obj.dynamic_symbols().chain(obj.symbols()) {
        if s.name() == Ok("_dl_debug_state") {
            return Some(s.address());
        }
    }
    None
}

// ---------------------------------------------------------------------- workload

struct Mix {
    bp: usize,
    rm: usize,
    cont: usize,
    stepi: usize,
    step: usize,
    next: usize,
    finish: usize,
    restart: usize,
    call: usize,
    watch: usize,
    end: usize,
    mem: usize,
    sel: usize,
    sig: usize,
}

fn mix_for(property: &str) -> Mix {
    match property {
        "C01" => Mix { bp: 30, rm: 14, cont: 44, stepi: 8, step: 1, next: 1, finish: 2, restart: 0, call: 0, watch: 3, end: 0, mem: 0, sel: 0, sig: 0 },
        "C03" => Mix { bp: 8, rm: 3, cont: 12, stepi: 15, step: 21, next: 21, finish: 15, restart: 0, call: 0, watch: 0, end: 0, mem: 0, sel: 5, sig: 6 },
        "C05" => Mix { bp: 12, rm: 3, cont: 25, stepi: 30, step: 10, next: 5, finish: 10, restart: 0, call: 0, watch: 0, end: 0, mem: 0, sel: 18, sig: 0 },
        "C11" => Mix { bp: 20, rm: 6, cont: 30, stepi: 6, step: 5, next: 5, finish: 5, restart: 5, call: 2, watch: 5, end: 8, mem: 0, sel: 0, sig: 0 },
        "C14" => Mix { bp: 8, rm: 2, cont: 18, stepi: 6, step: 2, next: 2, finish: 6, restart: 6, call: 0, watch: 48, end: 2, mem: 0, sel: 0, sig: 0 },
        "C18" => Mix { bp: 28, rm: 10, cont: 40, stepi: 8, step: 3, next: 3, finish: 4, restart: 2, call: 0, watch: 0, end: 1, mem: 0, sel: 2, sig: 0 },
        "C15" => Mix { bp: 12, rm: 3, cont: 16, stepi: 5, step: 3, next: 3, finish: 4, restart: 1, call: 0, watch: 0, end: 1, mem: 52, sel: 0, sig: 0 },
        "C16" => Mix { bp: 14, rm: 4, cont: 22, stepi: 8, step: 5, next: 5, finish: 5, restart: 1, call: 34, watch: 1, end: 1, mem: 0, sel: 0, sig: 0 },
        _ => Mix { bp: 16, rm: 8, cont: 22, stepi: 8, step: 10, next: 10, finish: 10, restart: 3, call: 5, watch: 10, end: 3, mem: 0, sel: 0, sig: 3 },
    }
}

fn gen_op(s: &Session, t: &mut Tape, mix: &Mix, stmt_lines: &[u64], fns: &[String]) -> Op {
    let tr = s.tr;
    let total = mix.bp + mix.rm + mix.cont + mix.stepi + mix.step + mix.next + mix.finish + mix.restart + mix.call + mix.watch + mix.end + mix.mem + mix.sel + mix.sig;
    let mut k = t.choose(total);
    let mut take = |w: usize| {
        if k < w {
            true
        } else {
            k -= w;
            false
        }
    };
    if take(mix.bp) {
        return match t.choose(10) {
            0 if !s.armed.is_empty() => {
                // an instruction right next to an armed one (both patches share a machine word)
                let armed: Vec<u64> = s.armed.keys().copied().collect();
                let a = armed[t.choose(armed.len())];
                let near: Vec<u64> = tr.pos.iter().map(|p| p.rip).filter(|r| *r != a && r.abs_diff(a) < 8).collect();
                if near.is_empty() { Op::BpAddr(tr.pos[t.choose(tr.pos.len())].rip) } else { Op::BpAddr(near[t.choose(near.len())]) }
            }
            0..=3 => {
                // an address of the reference execution, biased to the future
                let from = match s.pos {
                    Where::At(i) => i,
                    Where::Foreign { lb, .. } => lb,
                    _ => 0,
                };
                let idx = if t.chance(3, 4) && from + 1 < tr.pos.len() { from + 1 + t.choose((tr.pos.len() - from - 1).min(400)) } else { t.choose(tr.pos.len()) };
                Op::BpAddr(tr.pos[idx].rip)
            }
            4..=7 => Op::BpLine(if t.chance(1, 12) { 1 + t.choose(200) as u64 } else { stmt_lines[t.choose(stmt_lines.len())] }),
            _ => Op::BpFn(fns[t.choose(fns.len())].clone()),
        };
    }
    if take(mix.rm) {
        let armed: Vec<(u64, u32)> = s.armed.iter().map(|(a, n)| (*a, *n)).collect();
        return match t.choose(8) {
            0..=2 if !armed.is_empty() => Op::RmAddr(armed[t.choose(armed.len())].0),
            3..=4 if !armed.is_empty() => Op::RmNum(armed[t.choose(armed.len())].1),
            5 if !s.line_addrs.is_empty() => Op::RmLine(*s.line_addrs.keys().nth(t.choose(s.line_addrs.len())).unwrap()),
            6 if !s.fn_addrs.is_empty() => Op::RmFn(s.fn_addrs.keys().nth(t.choose(s.fn_addrs.len())).unwrap().clone()),
            _ => match t.choose(3) {
                0 => Op::RmNum(1000 + t.choose(10) as u32),
                1 => Op::RmLine(stmt_lines[t.choose(stmt_lines.len())]),
                _ => Op::RmAddr(tr.pos[t.choose(tr.pos.len())].rip),
            },
        };
    }
    if take(mix.cont) {
        return Op::Continue;
    }
    if take(mix.stepi) {
        return Op::Stepi;
    }
    if take(mix.step) {
        return Op::Step;
    }
    if take(mix.next) {
        return Op::Next;
    }
    if take(mix.finish) {
        return Op::Finish;
    }
    if take(mix.call) {
        let lits: [i64; 12] = [0, 1, -1, 2, 255, 256, 65535, 65536, i32::MAX as i64, i32::MIN as i64, i64::MAX, i64::MIN];
        let mut l = |t: &mut Tape| lits[t.choose(lits.len())];
        return match t.choose(9) {
            0 => Op::Call("probe0".into(), vec![]),
            1 | 2 => Op::Call("probe2".into(), vec![l(t), l(t)]),
            3 | 4 => Op::Call("probe3".into(), vec![l(t), l(t), l(t)]),
            5 | 6 => Op::Call("probe6".into(), vec![l(t), l(t), l(t), l(t), t.choose(2) as i64, l(t).unsigned_abs() as i64 & 0xffff]),
            _ => Op::CallBad(t.choose(5) as u8),
        };
    }
    if take(mix.watch) {
        let cands: Vec<u64> = ["TICK", "CALLN", "CALLLOG"].iter().filter_map(|n| s.data.get(*n).copied()).collect();
        let wl: Vec<(u32, u64)> = s.watches.iter().map(|(n, w)| (*n, w.0)).collect();
        if matches!(s.pos, Where::At(_)) && t.chance(if s.scoped.is_empty() { 3 } else { 4 }, 6) {
            let mut names: Vec<String> = s.dbg.as_ref().and_then(|d| d.read_local_variables().ok()).map(|v| v.iter().filter_map(|q| q.identity().name.clone()).collect()).unwrap_or_default();
            names.extend(s.dbg.as_ref().and_then(|d| d.read_argument_names(Dqe::Variable(Selector::Any)).ok()).unwrap_or_default());
            names.sort();
            names.dedup();
            if names.is_empty() || t.chance(1, 8) {
                names = ["r", "acc", "a", "b", "n", "k", "v0", "v1", "i0", "x"].iter().map(|s| s.to_string()).collect();
            }
            return Op::WatchExpr(names[t.choose(names.len())].clone(), t.chance(1, 2));
        }
        // four watchpoints alive: the fifth must be refused without side effects (a fresh, aligned,
        // unwatched location, so that the refusal is for lack of a register and nothing else)
        if wl.len() >= 4 && !cands.is_empty() && t.chance(1, 2) {
            let base = cands[t.choose(cands.len())];
            let free: Vec<u64> = (0..8u64).map(|k| base + 8 * k).filter(|a| !wl.iter().any(|w| w.1 / 8 == a / 8)).collect();
            if !free.is_empty() {
                return Op::WatchMem(free[t.choose(free.len())], [1u8, 2, 4, 8][t.choose(4)], t.chance(1, 2));
            }
        }
        return match t.choose(10) {
            0..=5 if !cands.is_empty() => {
                let base = cands[t.choose(cands.len())];
                let sz = [1u8, 2, 4, 8][t.choose(4)];
                // mostly aligned, sometimes not; a handful of distinct locations
                let slot = t.choose(6) as u64;
                let a = if t.chance(1, 8) { base + slot * 8 + 1 + t.choose(6) as u64 } else { base + slot * 8 };
                Op::WatchMem(a, sz, t.chance(1, 2))
            }
            // with several watchpoints on locals alive, removing the oldest one first is the
            // order in which shared end-of-scope bookkeeping goes wrong
            6 | 7 if s.companions.values().any(|ws| ws.len() >= 2) => Op::RmWatchNum(*s.companions.values().find(|ws| ws.len() >= 2).unwrap().iter().next().unwrap()),
            6 if s.scoped.len() >= 2 => Op::RmWatchNum(*s.scoped.keys().next().unwrap()),
            6 | 7 if !wl.is_empty() => Op::RmWatchNum(wl[t.choose(wl.len())].0),
            8 if !wl.is_empty() => Op::RmWatchAddr(wl[t.choose(wl.len())].1),
            _ => {
                if t.chance(1, 2) {
                    Op::RmWatchNum(500 + t.choose(5) as u32)
                } else {
                    Op::RmWatchAddr(cands.first().copied().unwrap_or(0x1000) + 8 * t.choose(8) as u64)
                }
            }
        };
    }
    if take(mix.end) {
        return if t.chance(1, 2) { Op::Detach } else { Op::Drop };
    }
    if take(mix.mem) {
        return gen_mem_op(s, t);
    }
    if take(mix.sig) {
        // SIGWINCH and SIGCONT: not quiet for the debugger, ignored by default by the program
        return Op::SignalAtPrompt(28);
    }
    if take(mix.sel) {
        let depth = match s.pos {
            Where::At(j) => tr.stack_at(j).len(),
            _ => 1,
        };
        // mostly an existing frame, sometimes one past the end
        return Op::SelectFrame(if t.chance(1, 10) { (depth + 1 + t.choose(3)) as u32 } else { t.choose(depth + 1) as u32 });
    }
    Op::Restart
}

/// C15 workload: addresses are drawn around every kind of boundary the word-granular ptrace
/// accessors can trip over (mapping starts/ends, page and word boundaries, any alignment).
fn gen_mem_op(s: &Session, t: &mut Tape) -> Op {
    let live = !matches!(s.pos, Where::NotStarted | Where::Exited);
    let maps: Vec<ns::MapEntry> = if live { ns::maps(s.pid).into_iter().filter(|m| !m.path.starts_with("[v")).collect() } else { vec![] };
    let kind = t.choose(20);
    if kind < 3 {
        return Op::Disasm;
    }
    if kind < 7 {
        let regs = ["rax", "rbx", "rcx", "rdx", "rdi", "rsi", "rbp", "rsp", "r8", "r9", "r10", "r11", "r12", "r13", "r14", "r15", "rip"];
        let r = regs[t.choose(regs.len())];
        let vals = [0u64, 1, 0xff, 0x7fff_ffff, 0x8000_0000, 0xffff_ffff, 0x1_0000_0000, 0x7fff_ffff_ffff_ffff, 0xdead_beef_cafe_f00d, u64::MAX];
        let v = if r == "rip" { s.tr.pos[t.choose(s.tr.pos.len())].rip } else { vals[t.choose(vals.len())] };
        return Op::RegSet(r.into(), v);
    }
    if maps.is_empty() {
        return Op::ReadMem(0x1000 + t.choose(64) as u64, t.choose(32));
    }
    let m = &maps[t.choose(maps.len())];
    // anchor: a boundary of the mapping or of a page inside it
    let pages = ((m.end - m.start) / 4096).max(1);
    let anchor = match t.choose(5) {
        0 => m.start,
        1 | 2 => m.end,
        3 => m.start + 4096 * t.choose(pages as usize) as u64,
        _ => m.start + t.choose((m.end - m.start) as usize) as u64 / 8 * 8,
    };
    let delta = t.choose(33) as i64 - 16;
    let a = (anchor as i64 + delta).max(0) as u64;
    if kind < 13 {
        let n = match t.choose(8) {
            0 => 0,
            1 => 1 + t.choose(7),
            2 => 8,
            3 => 9 + t.choose(56),
            4 => 4096 - 8 + t.choose(17),
            5 => 4096 + t.choose(4096),
            6 => 3 * 4096 - t.choose(9),
            _ => 1 + t.choose(40),
        };
        return Op::ReadMem(a, n);
    }
    // writes go to writable data (or deliberately to read-only / unmapped places)
    let w: Vec<&ns::MapEntry> = maps.iter().filter(|m| m.perms.starts_with("rw")).collect();
    let m = if !w.is_empty() && t.chance(5, 6) { w[t.choose(w.len())] } else { m };
    let pages = ((m.end - m.start) / 4096).max(1);
    let anchor = match t.choose(4) {
        0 => m.start,
        1 => m.end,
        2 => m.start + 4096 * t.choose(pages as usize) as u64,
        _ => m.start + t.choose((m.end - m.start) as usize) as u64,
    };
    let a = (anchor as i64 + t.choose(25) as i64 - 12).max(0) as u64;
    let vals = [0u64, u64::MAX, 0x0102_0304_0506_0708, 0xcccc_cccc_cccc_cccc, 0x8000_0000_0000_0001];
    Op::WriteWord(a, vals[t.choose(vals.len())])
}

pub fn run(spec: &WorkerSpec) -> WorkerResult {
    let t_all = std::time::Instant::now();
    let bin = Path::new(&spec.bin);
    let tr = match reftrace::trace_cached(bin) {
        Ok(t) => t,
        Err(e) => return WorkerResult { verdict: "harness_error".into(), detail: format!("reftrace: {e}"), ..Default::default() },
    };
    let lt = match crate::linetab::load(bin) {
        Ok(t) => t,
        Err(e) => return WorkerResult { verdict: "harness_error".into(), detail: format!("linetab: {e}"), ..Default::default() },
    };
    let mut tape = match &spec.tape {
        Some(t) => Tape::replay(t.clone()),
        None => Tape::record(spec.seed),
    };
    seam::start_recording();
    let t_new = std::time::Instant::now();
    let mut s = match Session::new(spec, &tr, &lt) {
        Ok(s) => s,
        Err(e) => return WorkerResult { verdict: "harness_error".into(), detail: e, ..Default::default() },
    };
    add(&mut s.stats, "time_us.session_new", t_new.elapsed().as_micros() as u64);
    let stmt_lines: Vec<u64> = lt.stmt_lines(s.file_id).into_iter().collect();
    let fns = spec.program.functions.clone();
    let mix = mix_for(&spec.property);
    let max_ops = spec.params.get("max_ops").and_then(|v| v.as_u64()).unwrap_or(40) as usize;
    let nops = 8 + tape.choose(max_ops.saturating_sub(8).max(1));
    // before start: a few breakpoint requests
    let pre = tape.choose(4);
    for _ in 0..pre {
        let m = Mix { bp: 10, rm: 2, cont: 0, stepi: 0, step: 0, next: 0, finish: 0, restart: 0, call: 0, watch: 0, end: 0, mem: 0, sel: 0, sig: 0 };
        let op = gen_op(&s, &mut tape, &m, &stmt_lines, &fns);
        s.exec(&op);
    }
    if tape.chance(1, 10) {
        let op = [Op::Continue, Op::Stepi, Op::Next, Op::Finish][tape.choose(4)].clone();
        s.exec(&op);
    }
    s.exec(&Op::Start);
    let mut dropped_early = false;
    for _ in 0..nops {
        if let Ok(mut p) = crate::PARTIAL.lock() {
            p.1 = tape.rec.clone();
        }
        if s.pos == Where::Exited && tape.chance(2, 3) {
            break;
        }
        let op = gen_op(&s, &mut tape, &mix, &stmt_lines, &fns);
        if matches!(op, Op::Restart) && !spec.params.contains_key("allow_restart") {
            continue;
        }
        if matches!(op, Op::Drop) {
            s.step_no += 1;
            let d = format!("{:3} Drop @ {:?}", s.step_no, s.pos);
            s.logf(d);
            bump(&mut s.stats, "op.Drop");
            dropped_early = true;
            break;
        }
        s.exec(&op);
        if matches!(op, Op::Detach) {
            break;
        }
        if s.truncate {
            dropped_early = true;
            break;
        }
    }
    // C02 (iii): remove every breakpoint, run to completion, compare with the native run
    if s.pos != Where::Exited && !dropped_early && !s.detached {
        let nums: Vec<u32> = s.armed.values().copied().collect();
        for n in nums {
            s.exec(&Op::RmNum(n));
        }
        s.exec(&Op::Continue);
    }
    s.drain_output();
    if s.pos == Where::Exited && s.restarts == 0 && s.calls_made == 0 && !dropped_early {
        bump(&mut s.stats, "c02.output_checked");
        // give the pipe a moment: the writer side is closed once the debugger is dropped
        let out = String::from_utf8_lossy(&s.stdout).to_string();
        if out != tr.stdout {
            s.violate("C02", "output_differs", format!("debuggee output {:?} differs from native {:?}", out, tr.stdout));
        }
        if let Some(c) = s.exit_code {
            if c != tr.exit_code {
                s.violate("C02", "exit_status_differs", format!("exit status {c} differs from native {}", tr.exit_code));
            }
        }
    }
    let state_at_drop = s.pos;
    let dbg = s.dbg.take();
    drop(dbg);
    // C11: after the debugger is gone nothing it launched is left alive in the namespace
    {
        let t0 = std::time::Instant::now();
        let mut left: Vec<(i32, char, String)>;
        loop {
            left = ns::all_processes().into_iter().filter(|(p, st, _)| *p > 2 && *st != 'Z').collect();
            if left.is_empty() || t0.elapsed().as_millis() > 1500 {
                break;
            }
            std::thread::yield_now();
        }
        bump(&mut s.stats, "c11.drop_checked");
        bump(&mut s.stats, &format!("c11.drop_in_state_{}", match state_at_drop { Where::NotStarted => "not_started", Where::At(_) => "stopped", Where::Foreign { .. } => "stopped_foreign", Where::Exited => "exited" }));
        if !left.is_empty() {
            s.violate("C11", "process_left_behind", format!("after dropping the debugger (state {state_at_drop:?}) live processes remain: {left:?}"));
        }
    }
    let mut stats = s.stats.clone();
    add(&mut stats, "positions", tr.pos.len() as u64);
    add(&mut stats, "time_us.total", t_all.elapsed().as_micros() as u64);
    if spec.property == "C18" {
        // address-based behaviour must not depend on the load address: every oracle that holds
        // for the PIE build is C18's oracle for the non-PIE build of the same program
        for v in s.violations.iter_mut() {
            if matches!(v.property.as_str(), "C01" | "C02" | "C05" | "C11") {
                v.invariant = format!("nonpie_{}_{}", v.property.to_lowercase(), v.invariant);
                v.property = "C18".into();
            }
        }
    }
    let verdict = if s.violations.is_empty() { "ok" } else { "violation" };
    WorkerResult { verdict: verdict.into(), violations: s.violations.clone(), detail: String::new(), log: s.log.clone(), tape: tape.rec.clone(), stats, ops: s.step_no, seam_calls: seam::N_PTRACE.load(std::sync::atomic::Ordering::Relaxed) + seam::N_WAIT.load(std::sync::atomic::Ordering::Relaxed) }
}

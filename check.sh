#!/bin/bash
# Entry point of every registered check.
#   ./check.sh <Cxx> [quick|thorough]     run the check of one property (rebuilds from /repo's working tree)
#   ./check.sh replay <file>              re-run a replay file in a fresh worker
#   ./check.sh selfcheck <what>           determinism / seam self tests
# exit 0: property held on everything explored; 1: VIOLATION line printed; 2: harness error
cd /verif/bssim || exit 2
export CARGO_NET_OFFLINE=true
mkdir -p /verif/scratch
if ! cargo build --quiet 2>/verif/scratch/build.log; then
  echo "HARNESS-ERROR: build of bssim against /repo failed" >&2
  grep -E "^error" -A8 /verif/scratch/build.log | head -40 >&2
  exit 2
fi
BIN=/verif/target/debug/bssim
case "$1" in
  replay)    exec "$BIN" replay "$2" ;;
  selfcheck) shift; exec "$BIN" selfcheck "$@" ;;
  *)         exec "$BIN" check "$1" --tier "${2:-${VERIF_TIER:-quick}}" ;;
esac
